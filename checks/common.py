"""shared helpers for the S-engine specs"""
import random
import z3
from mirsym import models, ref
from mirsym.sym import Executor, State, FE, GE, BV, Agg, Enum, Ref, Inconclusive, UNIT

FQ = 'fq::Fq'


def fq(n):
    return FE(FQ, z3.Int(n))


def fq2(n):
    return Agg('fq2::Fq2', (fq(n + '0'), fq(n + '1')))


def fq6(n):
    return Agg('fq6::Fq6', (fq2(n + '0'), fq2(n + '1'), fq2(n + '2')))


def fq12(n):
    return Agg('fq12::Fq12', (fq6(n + '0'), fq6(n + '1')))


def tolist(x):
    """nested python lists of integer terms"""
    if isinstance(x, FE):
        return x.e
    if isinstance(x, Agg):
        return [tolist(y) for y in x.f]
    return x


def flat(x):
    if isinstance(x, (list, tuple)):
        return [z for y in x for z in flat(y)]
    if isinstance(x, FE):
        return [x.e]
    if isinstance(x, Agg):
        return [z for y in x.f for z in flat(y)]
    return [x]


# schoolbook tower arithmetic over arbitrary ring terms (z3 Int terms or python ints)
def s2_mul(a, b):
    return [a[0] * b[0] - a[1] * b[1], a[0] * b[1] + a[1] * b[0]]


def s2_add(a, b):
    return [a[0] + b[0], a[1] + b[1]]


def s2_sub(a, b):
    return [a[0] - b[0], a[1] - b[1]]


def s2_neg(a):
    return [-a[0], -a[1]]


S_XI = [1, 1]


def s6_mul(a, b):
    c = [[0, 0] for _ in range(5)]
    for i in range(3):
        for j in range(3):
            c[i + j] = s2_add(c[i + j], s2_mul(a[i], b[j]))
    return [s2_add(c[0], s2_mul(S_XI, c[3])), s2_add(c[1], s2_mul(S_XI, c[4])), c[2]]


def s6_add(a, b):
    return [s2_add(x, y) for x, y in zip(a, b)]


def s6_sub(a, b):
    return [s2_sub(x, y) for x, y in zip(a, b)]


def s6_neg(a):
    return [s2_neg(x) for x in a]


S_V = [[0, 0], [1, 0], [0, 0]]


def s12_mul(a, b):
    c0 = s6_add(s6_mul(a[0], b[0]), s6_mul(S_V, s6_mul(a[1], b[1])))
    c1 = s6_add(s6_mul(a[0], b[1]), s6_mul(a[1], b[0]))
    return [c0, c1]


def s12_add(a, b):
    return [s6_add(a[0], b[0]), s6_add(a[1], b[1])]


def s12_sub(a, b):
    return [s6_sub(a[0], b[0]), s6_sub(a[1], b[1])]


def s12_neg(a):
    return [s6_neg(a[0]), s6_neg(a[1])]


def zi(x):
    return z3.IntVal(x) if isinstance(x, int) else x


def neq_any(got, exp):
    g, e = flat(got), flat(exp)
    if len(g) != len(e):
        raise Inconclusive('shape mismatch between implementation result and specification: %d vs %d' % (len(g), len(e)))
    return z3.Or(*[zi(x) != zi(y) for x, y in zip(g, e)])


import sys as _sys
if hasattr(_sys, 'set_int_max_str_digits'):
    _sys.set_int_max_str_digits(0)
_sys.setrecursionlimit(max(_sys.getrecursionlimit(), 100000))


class _NoEval(Exception):
    pass


def eval_mod(term, env, mod, uf=None):
    """fast evaluation of an integer/boolean term modulo `mod` by walking the AST with python integers.
    env: {name: int|bool}; isz_* predicates mean `== 0 (mod mod)`; other uninterpreted functions: uf[name](args) or a
    fixed pseudo-random function of the arguments (good enough to separate different polynomials)."""
    memo = {}
    K = z3

    def ev(t):
        i = t.get_id()
        if i in memo:
            return memo[i]
        r = ev1(t)
        memo[i] = r
        return r

    def ev1(t):
        if K.is_int_value(t):
            return t.as_long() % mod
        if K.is_true(t):
            return True
        if K.is_false(t):
            return False
        if K.is_bv_value(t):
            return ('bv', t.size(), t.as_long())
        k = t.decl().kind()
        ch = t.children()
        if K.is_const(t) and k == K.Z3_OP_UNINTERPRETED:
            v = env.get(t.decl().name(), 0)
            if K.is_int(t):
                return v % mod
            if K.is_bool(t):
                return bool(v)
            if K.is_bv(t):
                return ('bv', t.size(), int(v) & ((1 << t.size()) - 1))
            raise _NoEval()
        if k == K.Z3_OP_ADD:
            return sum(ev(c) for c in ch) % mod
        if k == K.Z3_OP_MUL:
            r = 1
            for c in ch:
                r = r * ev(c) % mod
            return r
        if k == K.Z3_OP_SUB:
            r = ev(ch[0])
            for c in ch[1:]:
                r -= ev(c)
            return r % mod
        if k == K.Z3_OP_UMINUS:
            return -ev(ch[0]) % mod
        if k == K.Z3_OP_ITE:
            return ev(ch[1]) if ev(ch[0]) else ev(ch[2])
        if k == K.Z3_OP_AND:
            return all(ev(c) for c in ch)
        if k == K.Z3_OP_OR:
            return any(ev(c) for c in ch)
        if k == K.Z3_OP_NOT:
            return not ev(ch[0])
        if k == K.Z3_OP_XOR:
            return ev(ch[0]) != ev(ch[1])
        if k == K.Z3_OP_IMPLIES:
            return (not ev(ch[0])) or ev(ch[1])
        if k == K.Z3_OP_EQ:
            return ev(ch[0]) == ev(ch[1])
        if k == K.Z3_OP_DISTINCT:
            vs = [ev(c) for c in ch]
            return len(set(vs)) == len(vs)
        if k == K.Z3_OP_UNINTERPRETED:
            nm = t.decl().name()
            args = [ev(c) for c in ch]
            if nm.startswith('isz_'):
                return args[0] % mod == 0
            if uf and nm in uf:
                return uf[nm](*args)
            import hashlib
            h = int(hashlib.sha256((nm + repr(args)).encode()).hexdigest(), 16)
            return (h % mod) if K.is_int(t) else bool(h & 1)
        if k in (K.Z3_OP_BUREM, K.Z3_OP_BUREM_I):
            a, b = ev(ch[0]), ev(ch[1])
            return ('bv', a[1], a[2] % b[2] if b[2] else a[2])
        raise _NoEval()
    return ev(term)


def eval_int(term, model, mod):
    """evaluate an integer term under a {name: int} assignment, modulo mod"""
    if isinstance(term, int):
        return term % mod
    try:
        return eval_mod(term, model, mod)
    except _NoEval:
        pass
    subs = []
    for v in z3_vars(term):
        val = model.get(v.decl().name(), 0)
        if z3.is_bv(v):
            subs.append((v, z3.BitVecVal(val, v.size())))
        elif z3.is_bool(v):
            subs.append((v, z3.BoolVal(bool(val))))
        else:
            subs.append((v, z3.IntVal(val)))
    t = z3.simplify(z3.substitute(term, *subs)) if subs else z3.simplify(term)
    if z3.is_int_value(t):
        return t.as_long() % mod
    raise Inconclusive('could not evaluate term under model: ' + str(t)[:200])


def z3_vars(t):
    seen, out, stack = set(), [], [t]
    while stack:
        x = stack.pop()
        if x.get_id() in seen:
            continue
        seen.add(x.get_id())
        if z3.is_const(x) and x.decl().kind() == z3.Z3_OP_UNINTERPRETED:
            out.append(x)
        else:
            stack.extend(x.children())
    return out


def identity_really_fails(got, exp, model, mod, seed, extra_points=8, const_values=None, fixed=None):
    """Is the difference non-zero modulo `mod` at the solver's point or at seeded random points?"""
    rnd = random.Random(seed)
    g, e = flat(got), flat(exp)
    names = {}
    for t in g + e:
        if not isinstance(t, int):
            for v in z3_vars(t):
                names[v.decl().name()] = v
    points = [dict(model)] if model else []

    def rand_pt():
        return {n: (rnd.randrange(mod) if z3.is_int(v) else rnd.getrandbits(v.size() if z3.is_bv(v) else 1)) for n, v in names.items()}
    for _ in range(extra_points):
        points.append(rand_pt())
    # structured points: one integer unknown at a time pinned to 0, 1, -1 (special-case branches such as Z = 0, Z = +-1 are
    # measure-zero for random points)
    ints = [n for n, v in names.items() if z3.is_int(v) and not (const_values and n in const_values)]
    if len(ints) <= 16:
        for n in ints:
            for val in (0, 1, mod - 1):
                pt = rand_pt()
                pt[n] = val
                points.append(pt)
    # two unknowns zero at once (an extension-field coefficient (c0, c1) being zero needs both), and sums vanishing (a = -b)
    if len(ints) <= 40:
        import itertools
        for a_, b_ in itertools.combinations(ints, 2):
            pt = rand_pt()
            pt[a_] = 0
            pt[b_] = 0
            points.append(pt)
            pt2 = rand_pt()
            pt2[b_] = (-pt2[a_]) % mod
            points.append(pt2)
            pt3 = rand_pt()
            pt3[b_] = pt3[a_]          # two unknowns EQUAL (co-Z operands, equal coefficients)
            points.append(pt3)
        # four unknowns: two coefficient pairs that cancel (x = -y in the extension field)
        if len(ints) <= 24:
            pairs = [(ints[i], ints[i + 1]) for i in range(0, len(ints) - 1, 2)]
            for (a0, a1), (b0, b1) in itertools.combinations(pairs, 2):
                pt = rand_pt()
                pt[b0] = (-pt[a0]) % mod
                pt[b1] = (-pt[a1]) % mod
                points.append(pt)
                pt = rand_pt()
                pt[a0] = pt[a1] = pt[b0] = pt[b1] = 0
                points.append(pt)
    for pt in points:
        pt = dict(pt)
        if const_values:
            pt.update(const_values)
        if fixed:
            pt.update(fixed)
        for n in names:
            pt.setdefault(n, 0)
        for x, y in zip(g, e):
            if eval_int(zi(x), pt, mod) != eval_int(zi(y), pt, mod):
                return pt
    return None


def new_executor(ctx, leaf, extra_models=(), **kw):
    fns, consts, info = ctx.mir()
    ex = Executor(fns, consts, leaf_ops=list(extra_models) + leaf + models.STD_MODELS, **kw)
    return ex


def ring_executor(ctx, ty_pat=r'fq::Fq', name='Fq', extra_models=(), **kw):
    D = models.RingDomain(ty_pat, name)
    ex = new_executor(ctx, D.models(), extra_models, **kw)
    D.install(ex)
    ctx.chk.axioms += [D.isz(z3.IntVal(0)), z3.Not(D.isz(z3.IntVal(1))), z3.Not(D.isz(z3.IntVal(-1)))]
    return ex, D


def mk(b):
    return z3.BoolVal(b) if isinstance(b, bool) else b


def quick_refute(got, exp, cond, seed, fixed=None, mod=ref.Q, tries=3):
    rnd = random.Random(seed * 7919 + 13)
    g, e = flat(got), flat(exp)
    terms = [zi(t) for t in g + e] + ([cond] if cond is not None else [])
    names = {}
    for t in terms:
        for v in z3_vars(t):
            names[v.decl().name()] = v
    for _ in range(tries):
        env = {}
        for n, v in names.items():
            if z3.is_int(v):
                env[n] = rnd.randrange(mod)
            elif z3.is_bv(v):
                env[n] = rnd.getrandbits(v.size())
            else:
                env[n] = bool(rnd.getrandbits(1))
        if fixed:
            env.update(fixed)
        if cond is not None:
            try:
                if not eval_mod(cond, env, mod):
                    # steer: atoms isz(...) are rarely true at random points; only refute on points that satisfy cond
                    continue
            except _NoEval:
                return None
        for x, y in zip(g, e):
            if eval_mod(zi(x), env, mod) != eval_mod(zi(y), env, mod):
                return env
    return None


class Identities:
    """bookkeeping for polynomial-identity obligations so that failures can be confirmed mod q"""

    def __init__(self, ctx, keyprefix):
        self.ctx, self.chk, self.keyprefix = ctx, ctx.chk, keyprefix
        self.meta = {}
        self.const_values = {}

    def ident(self, name, got, exp, group='ring-identity', cond=None, fixed=None, key=None):
        f = neq_any(got, exp)
        if cond is not None:
            f = z3.And(cond, f)
        self.chk.must_unsat(name, f, group=group)
        self.meta[name] = (got, exp, fixed, key or name.split(':')[0])
        # cheap refutation attempt at seeded random points (only ever finds counterexamples; "holds" is the solver's verdict)
        try:
            pt = quick_refute(got, exp, cond, self.ctx.seed, fixed)
        except Exception:
            pt = None
        if pt is not None:
            ob = self.chk.obs[-1]
            ob.result, ob.seconds, ob.model = 'sat', 0.0, {k: v for k, v in pt.items() if isinstance(v, (int, bool))}
            ob.meta = 'refuted by evaluation at a seeded random point modulo q before calling the solver'

    def settle(self, mod=ref.Q, extra=None):
        """after discharge: turn sat / undecided identity obligations into violations when the difference is
        really non-zero modulo q at a concrete point; everything else stays for the driver (inconclusive)"""
        for o in self.chk.obs:
            if o.name not in self.meta or o.result == o.expect:
                continue
            got, exp, fixed, key = self.meta[o.name]
            pt = identity_really_fails(got, exp, o.model if o.result == 'sat' else None, mod, self.ctx.seed,
                                       const_values=self.const_values, fixed=fixed)
            if pt is not None:
                o.handled = True
                if o.result != 'sat':
                    o.result = 'sat'      # counterexample found by evaluation after the solver gave up
                self.ctx.violation(self.keyprefix + ':' + key, '%s: implementation differs from specification (%s)' % (self.keyprefix, o.name),
                                   {'obligation': o.name, 'point_mod_q': {k: (hex(v) if isinstance(v, int) and not isinstance(v, bool) else v)
                                                                          for k, v in pt.items() if k not in self.const_values},
                                    'how': 'evaluate the named operation on these coefficients (mod q) and compare with the textbook result'})


def concretize(formula, model, mod):
    """Evaluate a violation formula at the solver's point with every isz_* predicate interpreted as the real
    zero test modulo `mod`.  Returns True / False, or None when it does not reduce to a constant."""
    subs = []
    for v in z3_vars(formula):
        val = (model or {}).get(v.decl().name(), 0)
        if z3.is_bv(v):
            subs.append((v, z3.BitVecVal(val if not isinstance(val, bool) else int(val), v.size())))
        elif z3.is_bool(v):
            subs.append((v, z3.BoolVal(bool(val))))
        elif z3.is_int(v):
            subs.append((v, z3.IntVal(val)))
    f = z3.simplify(z3.substitute(formula, *subs)) if subs else z3.simplify(formula)
    # replace isz(c) atoms bottom-up
    for _ in range(6):
        atoms = []
        seen, stack = set(), [f]
        while stack:
            x = stack.pop()
            if x.get_id() in seen:
                continue
            seen.add(x.get_id())
            if z3.is_app(x) and x.decl().name().startswith('isz_') and x.num_args() == 1:
                a = z3.simplify(x.arg(0))
                if z3.is_int_value(a):
                    atoms.append((x, z3.BoolVal(a.as_long() % mod == 0)))
                    continue
            stack.extend(x.children())
        if not atoms:
            break
        f = z3.simplify(z3.substitute(f, *atoms))
    if z3.is_true(f):
        return True
    if z3.is_false(f):
        return False
    return None


def _structured_witness(f, mod, seed, limit=40000):
    import itertools
    rnd = random.Random(seed * 101 + 7)
    vs = {}
    for v in z3_vars(f):
        vs[v.decl().name()] = v
    ints = sorted(n for n, v in vs.items() if z3.is_int(v))
    bools = sorted(n for n, v in vs.items() if z3.is_bool(v))
    others = [n for n, v in vs.items() if not (z3.is_int(v) or z3.is_bool(v))]
    if others or len(ints) > 8 or len(bools) > 6:
        return None
    r1, r2 = rnd.randrange(2, mod), rnd.randrange(2, mod)
    vals = [0, 1, mod - 1, r1, r2]
    count = 0
    for bv in itertools.product([False, True], repeat=len(bools)):
        for iv in itertools.product(vals, repeat=len(ints)):
            count += 1
            if count > limit:
                return None
            env = dict(zip(ints, iv))
            env.update(dict(zip(bools, bv)))
            try:
                if eval_mod(f, env, mod) is True:
                    return env
            except Exception:
                return None
    return None


def settle_structural(ctx, groups, keyprefix, mod=ref.Q):
    """sat answers on case-structure / conversion / no-panic obligations become violations only when the violation
    formula is true at the solver's point with isz read as the zero test modulo q; otherwise they stay inconclusive"""
    chk = ctx.chk
    for o in list(chk.failed()) + [u for u in chk.undecided() if u.expect == 'unsat']:
        if o.handled or o.group not in groups or o.expect != 'unsat':
            continue
        f = chk.formulas.get(o.name)
        v = concretize(f, o.model, mod) if (f is not None and o.result == 'sat') else None
        point = o.model
        if v is not True and f is not None:
            # the solver's point interprets isz_* freely; look for a REAL point (isz := zero test modulo q) among structured
            # assignments: every integer unknown in {0, 1, -1, two random values}, every boolean in {False, True}
            point = _structured_witness(f, mod, ctx.seed)
            v = True if point is not None else v
        if v is True:
            o.handled = True
            if o.result != 'sat':
                o.result = 'sat'          # the solver ran out of time; the counterexample was found by evaluating the violation formula at structured real points
            ctx.violation(keyprefix + ':' + o.name.split(':')[0][:50], '%s obligation fails: %s' % (keyprefix, o.name),
                          {'obligation': o.name, 'model': {k_: (hex(v_) if isinstance(v_, int) and not isinstance(v_, bool) else v_) for k_, v_ in (point or {}).items()},
                           'confirmed': 'violation formula is true at this point with isz := (t mod q == 0)'})
