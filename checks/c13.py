"""C13  expand_message and hash_to_field conform to RFC 9380 for all inputs (bounded: see level_note).

K-mock: ExpandMsgXmd<H> / ExpandMsgXof<H> / hash_to_field<T,X> instantiated with mock hashes / recorders and compared, for all
message and tag bytes at a grid of lengths, with an independent transcription of RFC 9380 5.3.1 / 5.3.2; the 255-block limit;
K-bits: Fq::from_okm, Fr::from_okm, Fq2::from_ro for all 64/48/128-byte blocks (Montgomery multiplication recorded, not computed)."""
import hashlib
from mirsym import load, ref
from . import kani_common as K
from . import c13_euf


# ---- independent transcription of RFC 9380 section 5.2 / 5.3 over hashlib (supplementary native differential: sampling on a boundary
#      grid through the REAL SHA-2 / SHAKE instantiations, which the Kani mocks do not reach; not the deciding method)
def rfc_xmd(hname, msg, dst, n):
    H = lambda d: hashlib.new(hname, d).digest()
    b, sblk = hashlib.new(hname).digest_size, hashlib.new(hname).block_size
    ell = -(-n // b)
    if ell > 255 or n > 65535 or len(dst) > 255:
        return None
    dp = dst + bytes([len(dst)])
    b0 = H(bytes(sblk) + msg + n.to_bytes(2, 'big') + b'\0' + dp)
    bi = H(b0 + b'\1' + dp)
    out = bi
    for i in range(2, ell + 1):
        bi = H(bytes(x ^ y for x, y in zip(b0, bi)) + bytes([i]) + dp)
        out += bi
    return out[:n]


def rfc_xof(hname, msg, dst, n):
    return hashlib.new(hname, msg + n.to_bytes(2, 'big') + dst + bytes([len(dst)])).digest(n)


def _bytes(tag, n):
    out = b''
    i = 0
    while len(out) < n:
        out += hashlib.sha256(b'%s-%d' % (tag.encode(), i)).digest()
        i += 1
    return out[:n]


def confirm_euf_failures(ctx):
    """a failed EUF obligation is a solver model over the uninterpreted hash; before it is reported the same lengths are replayed through
    the real code with a real hash of that digest size (SHA-256 for b = 32, SHA-512 for b = 64, SHAKE128 for the XOF) against hashlib"""
    chk = ctx.chk
    failed = [o for o in chk.failed() if isinstance(o.meta, dict) and 'variant' in o.meta]
    if not failed:
        return
    failed.sort(key=lambda o: o.meta['b'] not in (32, 64))      # natively reproducible points first (violations are de-duplicated by key)
    n = load.Native('release')
    try:
        for o in failed:
            o.handled = True
            pt = o.meta
            key = 'expand-euf:%s:%s' % (pt['variant'], 'abort' if 'abort' in o.name else 'dst255' if pt['dst_len'] == 255 else 'bytes')
            v = {('xmd', 32): ('xmd256', 'sha256', rfc_xmd), ('xmd', 64): ('xmd512', 'sha512', rfc_xmd), ('xof', 32): ('xof128', 'shake_128', rfc_xof)}.get((pt['variant'], pt['b']))
            rep = {'obligation': o.name, 'grid_point': pt, 'solver_model': o.model, 'detail': o.text}
            if v is None:
                # digest sizes 1 and 2 exist only as the Kani mocks; the solver model stands on its own here
                ctx.violation(key, 'RFC 9380 obligation fails on the real generic code with the hash uninterpreted (digest size %d: no native hash of that size; '
                              'see the Kani mock harnesses): %s %s' % (pt['b'], o.name, (o.text or '')[:160]), rep)
                continue
            m, d = _bytes('m%d' % pt['msg_len'], pt['msg_len']), _bytes('d%d' % pt['dst_len'], pt['dst_len'])
            cmd = 'expand %s %s %s %d' % (v[0], m.hex() or '-', d.hex() or '-', pt['len'])
            got = n.run([cmd])[0].strip()
            want = v[2](v[1], m, d, pt['len'])
            wtxt = 'PANIC' if want is None else ('%d %s' % (pt['len'], want.hex())).strip()
            rep.update(cmd=cmd, expected=wtxt, got=got, profile='release')
            if got != wtxt:
                ctx.violation(key, 'expand_message differs from RFC 9380 5.3: solver counterexample over the uninterpreted hash at %s, reproduced natively with %s: got %s, want %s'
                              % (pt, v[1], got[:50], wtxt[:50]), rep)
            else:
                ctx.inconclusive('EUF counterexample at %s does not reproduce natively with %s (%s)' % (pt, v[1], o.name))
    finally:
        n.close()


def native_differential(ctx):
    chk = ctx.chk
    variants = [('xmd256', 'sha256', rfc_xmd), ('xmd512', 'sha512', rfc_xmd), ('xof128', 'shake_128', rfc_xof), ('xof256', 'shake_256', rfc_xof)]
    msg_lens = [0, 1, 55, 56, 63, 64, 65, 111, 112, 128, 200]
    dst_lens = [0, 1, 43, 254, 255]
    cases = []
    for v, hname, f in variants:
        b = hashlib.new(hname).digest_size if 'xmd' in v else 32
        out_lens = [0, 1, b - 1, b, b + 1, 2 * b, 2 * b + 1, 128, 255 * b] if 'xmd' in v else [0, 1, 31, 32, 33, 128, 255, 256, 257, 65535]
        if 'xmd' in v:
            out_lens += [255 * b + 1, 256 * b - 1, 256 * b]      # beyond 255 blocks: must abort
        if ctx.tier == 'quick':
            grid = [(ml, dl, ol) for ml in msg_lens for dl in dst_lens for ol in out_lens if (ml in (0, 64) or dl in (0, 255) and ml == 1 or ol in (b + 1,) and dl == 43)]
        else:
            grid = [(ml, dl, ol) for ml in msg_lens for dl in dst_lens for ol in out_lens]
        for ml, dl, ol in grid:
            if ol > 65535:
                continue
            cases.append((v, hname, f, _bytes('m%d' % ml, ml), _bytes('d%d' % dl, dl), ol))
    cmds = ['expand %s %s %s %d' % (v, m.hex() or '-', d.hex() or '-', ol) for v, _, _, m, d, ol in cases]
    # hash_to_field: element count 0..3, the three element types, both expander families
    hcases = []
    for ty, L, mod, m_ in (('fq', 64, ref.Q, 1), ('fr', 48, ref.R_ORDER, 1), ('fq2', 64, ref.Q, 2)):
        for v, hname, f in (variants[0], variants[2]):
            for cnt in (0, 1, 2, 3):
                for ml, dl in ((0, 0), (3, 255), (64, 43)):
                    hcases.append((ty, L, mod, m_, v, hname, f, _bytes('m%d' % ml, ml), _bytes('d%d' % dl, dl), cnt))
    hcmds = ['h2f %s %s %s %s %d' % (ty, v, m.hex() or '-', d.hex() or '-', cnt) for ty, L, mod, m_, v, hname, f, m, d, cnt in hcases]
    nbad = 0
    for profile in (('release',) if ctx.tier == 'quick' else ('dev', 'release')):
        n = load.Native(profile)
        try:
            outs = n.run(cmds + hcmds)
        finally:
            n.close()
        for (v, hname, f, m, d, ol), o in zip(cases, outs[:len(cases)]):
            want = f(hname, m, d, ol)
            wtxt = 'PANIC' if want is None else ('%d %s' % (ol, want.hex())).strip()
            if o.strip() != wtxt and nbad < 5:
                nbad += 1
                ctx.violation('expand-native:%s:%s' % (v, 'abort' if want is None else 'dst%d' % len(d) if len(d) in (0, 255) else 'bytes'),
                              'expand_message (%s) differs from RFC 9380 5.3 (hashlib transcription) for |msg|=%d |dst|=%d len=%d in the %s build: got %s, want %s'
                              % (v, len(m), len(d), ol, profile, o[:60], wtxt[:60]),
                              {'cmd': 'expand %s %s %s %d' % (v, m.hex() or '-', d.hex() or '-', ol), 'expected': wtxt, 'got': o.strip(), 'profile': profile})
        for (ty, L, mod, m_, v, hname, f, m, d, cnt), o in zip(hcases, outs[len(cases):]):
            okm = f(hname, m, d, cnt * m_ * L)
            elems = [int.from_bytes(okm[i * L:(i + 1) * L], 'big') % mod for i in range(cnt * m_)]
            width = 64 if ty == 'fr' else 96
            wtxt = ('n=%d ' % cnt + ' '.join('%0*x' % (width, e) for e in elems)).strip()
            if o.strip() != wtxt and nbad < 5:
                nbad += 1
                ctx.violation('h2f-native:%s:%s' % (ty, v), 'hash_to_field::<%s, %s> differs from RFC 9380 5.2 for |msg|=%d |dst|=%d count=%d (%s build)' % (ty, v, len(m), len(d), cnt, profile),
                              {'cmd': 'h2f %s %s %s %s %d' % (ty, v, m.hex() or '-', d.hex() or '-', cnt), 'expected': wtxt, 'got': o.strip(), 'profile': profile})
    chk.ground('native differential: expand_message_xmd<SHA-256|SHA-512>, expand_message_xof<SHAKE128|256> and hash_to_field<Fq|Fr|Fq2> agree with an independent '
               'hashlib transcription of RFC 9380 5.2/5.3 on %d + %d boundary cases (incl. |dst| = 0, 254, 255; block-aligned messages; 255 blocks; abort beyond)' % (len(cases), len(hcases)),
               nbad == 0, '%d disagreements' % nbad)
    if nbad:
        chk.ground_handled = getattr(chk, 'ground_handled', {})
        chk.ground_handled[chk.grounds[-1][0]] = True
    chk.extra['native_differential'] = {'expand_cases': len(cases), 'hash_to_field_cases': len(hcases), 'profiles': 'release' if ctx.tier == 'quick' else 'dev+release',
                                        'role': 'supplementary (sampling on a boundary grid); the deciding method is the Kani run'}


def run(ctx):
    chk = ctx.chk
    ctx.level = 'model_checking'
    ctx.explanation = ('S-euf: the real generic expand_message_xmd / _xof / hash_to_field bodies executed from MIR with the hash uninterpreted, every message and tag byte '
                       'symbolic, lengths from a boundary grid, decided by z3 (failing obligations replayed natively through SHA-2 / SHAKE); '
                       'K: Kani/CBMC bounded model checking of the same code over mock hashes and of from_okm / from_ro for all blocks')
    if not ctx.only or 'euf' in ctx.only:
        c13_euf.run_part(ctx)
        chk.discharge()
        confirm_euf_failures(ctx)
        for g_ in chk.grounds:
            if not g_[1]:
                chk.ground_handled = getattr(chk, 'ground_handled', {})
                chk.ground_handled[g_[0]] = True
                ctx.violation('h2f-euf:' + g_[0].split(':')[0], 'fact fails: %s (%s)' % (g_[0], g_[2]), {'fact': g_[0], 'detail': g_[2]})
        if ctx.only and ctx.only == {'euf'}:
            return
    K.run_harnesses(ctx, 'c13')
    K.report_failures(ctx, 'expand-message')
    native_differential(ctx)
    chk.assumptions += ['mock hash: 16-bit position-sensitive rolling state (a mutated composition has to agree with the RFC transcription for every symbolic byte to escape); '
                        'SHA-256/512 and SHAKE internals, and vec_result of real XOF readers, are not modelled',
                        'from_okm: Fq/Fr::mul_assign recorded by a stub (the literal multipliers F_2_256, F_2_192 equal 2^256 R, 2^192 R: C08 ground facts; Montgomery product: C08 S-lia)']
    chk.bounds.update({'S-euf grid (digest b, block s, |msg|, |dst|, len)': 'b,s in (32,64) (64,128) (2,4) (1,4); |dst| in 0,1,254,255; |msg| in 0,1,s-1,s,s+1; len in 0,1,b-1,b,b+1,2b,3b-1, '
                       '254b..256b+1 for the block limit; XOF len up to 256 (quick) / 65535 (thorough); hash_to_field L in 48,64,128, count 0,1,2,5 (quick) / 0..8 (thorough); '
                       'lengths outside the grid are outside the claim',
                       'Kani lengths (msg, dst, len_in_bytes)': 'quick: xmd (3,3,7) (0,1,2) (5,0,4) (1,3,0), xof (3,3,7) (0,0,1); thorough adds (4,2,9) (8,8,16), xof (5,2,0) (2,8,16), 255 blocks served',
                       'limit': 'Kani: ell = 256 with a 1-byte digest and 511 bytes with a 2-byte digest abort (should_panic harnesses).  "255 blocks are served" is decided by the S-euf part only (254b..256b+1 bytes for b = 1, 2): the two concrete 255-block Kani harnesses did not finish in 3600 s of CBMC symbolic execution and are not registered',
                       'hash_to_field counts': '0..2 (quick), 3 (thorough); element length 3 bytes (mock)', 'reduction blocks': 'all 2^512 / 2^384 / 2^1024 byte blocks'})
    chk.trusted += ['Kani 0.68 / CBMC 6.11']


def replay(ctx, path):
    run(ctx)
    return 1 if ctx.chk.violations else 0
