"""C13  expand_message and hash_to_field conform to RFC 9380 for all inputs (bounded: see level_note).

K-mock: ExpandMsgXmd<H> / ExpandMsgXof<H> / hash_to_field<T,X> instantiated with mock hashes / recorders and compared, for all
message and tag bytes at a grid of lengths, with an independent transcription of RFC 9380 5.3.1 / 5.3.2; the 255-block limit;
K-bits: Fq::from_okm, Fr::from_okm, Fq2::from_ro for all 64/48/128-byte blocks (Montgomery multiplication recorded, not computed)."""
from . import kani_common as K


def run(ctx):
    chk = ctx.chk
    ctx.level = 'model_checking'
    ctx.explanation = 'Kani/CBMC bounded model checking of the real generic expand_message / hash_to_field / from_okm code over mocks, all bytes symbolic, lengths from a grid'
    K.run_harnesses(ctx, 'c13')
    K.report_failures(ctx, 'expand-message')
    chk.assumptions += ['mock hash: 16-bit position-sensitive rolling state (a mutated composition has to agree with the RFC transcription for every symbolic byte to escape); '
                        'SHA-256/512 and SHAKE internals, and vec_result of real XOF readers, are not modelled',
                        'from_okm: Fq/Fr::mul_assign recorded by a stub (the literal multipliers F_2_256, F_2_192 equal 2^256 R, 2^192 R: C08 ground facts; Montgomery product: C08 S-lia)']
    chk.bounds.update({'lengths (msg, dst, len_in_bytes)': 'quick: xmd (3,3,7) (0,1,2) (5,0,4) (1,3,0), xof (3,3,7) (0,0,1); thorough adds (4,2,9) (8,8,16), xof (5,2,0) (2,8,16), 255 blocks served',
                       'limit': 'ell = 256 with a 1-byte digest aborts (should_panic harness); ell = 255 returns 255 bytes (thorough)',
                       'hash_to_field counts': '0..2 (quick), 3 (thorough); element length 3 bytes (mock)', 'reduction blocks': 'all 2^512 / 2^384 / 2^1024 byte blocks'})
    chk.trusted += ['Kani 0.68 / CBMC 6.11']


def replay(ctx, path):
    run(ctx)
    return 1 if ctx.chk.violations else 0
