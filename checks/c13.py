"""C13  expand_message and hash_to_field conform to RFC 9380 for all inputs (bounded: see level_note).

K-mock: ExpandMsgXmd<H> / ExpandMsgXof<H> / hash_to_field<T,X> instantiated with mock hashes / recorders and compared, for all
message and tag bytes at a grid of lengths, with an independent transcription of RFC 9380 5.3.1 / 5.3.2; the 255-block limit;
K-bits: Fq::from_okm, Fr::from_okm, Fq2::from_ro for all 64/48/128-byte blocks (Montgomery multiplication recorded, not computed)."""
import hashlib
from mirsym import load, ref
from . import kani_common as K


# ---- independent transcription of RFC 9380 section 5.2 / 5.3 over hashlib (supplementary native differential: sampling on a boundary
#      grid through the REAL SHA-2 / SHAKE instantiations, which the Kani mocks do not reach; not the deciding method)
def rfc_xmd(hname, msg, dst, n):
    H = lambda d: hashlib.new(hname, d).digest()
    b, sblk = hashlib.new(hname).digest_size, hashlib.new(hname).block_size
    ell = -(-n // b)
    if ell > 255 or n > 65535 or len(dst) > 255:
        return None
    dp = dst + bytes([len(dst)])
    b0 = H(bytes(sblk) + msg + n.to_bytes(2, 'big') + b'\0' + dp)
    bi = H(b0 + b'\1' + dp)
    out = bi
    for i in range(2, ell + 1):
        bi = H(bytes(x ^ y for x, y in zip(b0, bi)) + bytes([i]) + dp)
        out += bi
    return out[:n]


def rfc_xof(hname, msg, dst, n):
    return hashlib.new(hname, msg + n.to_bytes(2, 'big') + dst + bytes([len(dst)])).digest(n)


def _bytes(tag, n):
    out = b''
    i = 0
    while len(out) < n:
        out += hashlib.sha256(b'%s-%d' % (tag.encode(), i)).digest()
        i += 1
    return out[:n]


def native_differential(ctx):
    chk = ctx.chk
    variants = [('xmd256', 'sha256', rfc_xmd), ('xmd512', 'sha512', rfc_xmd), ('xof128', 'shake_128', rfc_xof), ('xof256', 'shake_256', rfc_xof)]
    msg_lens = [0, 1, 55, 56, 63, 64, 65, 111, 112, 128, 200]
    dst_lens = [0, 1, 43, 254, 255]
    cases = []
    for v, hname, f in variants:
        b = hashlib.new(hname).digest_size if 'xmd' in v else 32
        out_lens = [0, 1, b - 1, b, b + 1, 2 * b, 2 * b + 1, 128, 255 * b] if 'xmd' in v else [0, 1, 31, 32, 33, 128, 255, 256, 257, 65535]
        if 'xmd' in v:
            out_lens += [255 * b + 1, 256 * b - 1, 256 * b]      # beyond 255 blocks: must abort
        if ctx.tier == 'quick':
            grid = [(ml, dl, ol) for ml in msg_lens for dl in dst_lens for ol in out_lens if (ml in (0, 64) or dl in (0, 255) and ml == 1 or ol in (b + 1,) and dl == 43)]
        else:
            grid = [(ml, dl, ol) for ml in msg_lens for dl in dst_lens for ol in out_lens]
        for ml, dl, ol in grid:
            if ol > 65535:
                continue
            cases.append((v, hname, f, _bytes('m%d' % ml, ml), _bytes('d%d' % dl, dl), ol))
    cmds = ['expand %s %s %s %d' % (v, m.hex() or '-', d.hex() or '-', ol) for v, _, _, m, d, ol in cases]
    # hash_to_field: element count 0..3, the three element types, both expander families
    hcases = []
    for ty, L, mod, m_ in (('fq', 64, ref.Q, 1), ('fr', 48, ref.R_ORDER, 1), ('fq2', 64, ref.Q, 2)):
        for v, hname, f in (variants[0], variants[2]):
            for cnt in (0, 1, 2, 3):
                for ml, dl in ((0, 0), (3, 255), (64, 43)):
                    hcases.append((ty, L, mod, m_, v, hname, f, _bytes('m%d' % ml, ml), _bytes('d%d' % dl, dl), cnt))
    hcmds = ['h2f %s %s %s %s %d' % (ty, v, m.hex() or '-', d.hex() or '-', cnt) for ty, L, mod, m_, v, hname, f, m, d, cnt in hcases]
    nbad = 0
    for profile in (('release',) if ctx.tier == 'quick' else ('dev', 'release')):
        n = load.Native(profile)
        try:
            outs = n.run(cmds + hcmds)
        finally:
            n.close()
        for (v, hname, f, m, d, ol), o in zip(cases, outs[:len(cases)]):
            want = f(hname, m, d, ol)
            wtxt = 'PANIC' if want is None else ('%d %s' % (ol, want.hex())).strip()
            if o.strip() != wtxt and nbad < 5:
                nbad += 1
                ctx.violation('expand-native:%s:%s' % (v, 'abort' if want is None else 'dst%d' % len(d) if len(d) in (0, 255) else 'bytes'),
                              'expand_message (%s) differs from RFC 9380 5.3 (hashlib transcription) for |msg|=%d |dst|=%d len=%d in the %s build: got %s, want %s'
                              % (v, len(m), len(d), ol, profile, o[:60], wtxt[:60]),
                              {'cmd': 'expand %s %s %s %d' % (v, m.hex() or '-', d.hex() or '-', ol), 'expected': wtxt, 'got': o.strip(), 'profile': profile})
        for (ty, L, mod, m_, v, hname, f, m, d, cnt), o in zip(hcases, outs[len(cases):]):
            okm = f(hname, m, d, cnt * m_ * L)
            elems = [int.from_bytes(okm[i * L:(i + 1) * L], 'big') % mod for i in range(cnt * m_)]
            width = 64 if ty == 'fr' else 96
            wtxt = ('n=%d ' % cnt + ' '.join('%0*x' % (width, e) for e in elems)).strip()
            if o.strip() != wtxt and nbad < 5:
                nbad += 1
                ctx.violation('h2f-native:%s:%s' % (ty, v), 'hash_to_field::<%s, %s> differs from RFC 9380 5.2 for |msg|=%d |dst|=%d count=%d (%s build)' % (ty, v, len(m), len(d), cnt, profile),
                              {'cmd': 'h2f %s %s %s %s %d' % (ty, v, m.hex() or '-', d.hex() or '-', cnt), 'expected': wtxt, 'got': o.strip(), 'profile': profile})
    chk.ground('native differential: expand_message_xmd<SHA-256|SHA-512>, expand_message_xof<SHAKE128|256> and hash_to_field<Fq|Fr|Fq2> agree with an independent '
               'hashlib transcription of RFC 9380 5.2/5.3 on %d + %d boundary cases (incl. |dst| = 0, 254, 255; block-aligned messages; 255 blocks; abort beyond)' % (len(cases), len(hcases)),
               nbad == 0, '%d disagreements' % nbad)
    if nbad:
        chk.ground_handled = getattr(chk, 'ground_handled', {})
        chk.ground_handled[chk.grounds[-1][0]] = True
    chk.extra['native_differential'] = {'expand_cases': len(cases), 'hash_to_field_cases': len(hcases), 'profiles': 'release' if ctx.tier == 'quick' else 'dev+release',
                                        'role': 'supplementary (sampling on a boundary grid); the deciding method is the Kani run'}


def run(ctx):
    chk = ctx.chk
    ctx.level = 'model_checking'
    ctx.explanation = 'Kani/CBMC bounded model checking of the real generic expand_message / hash_to_field / from_okm code over mocks, all bytes symbolic, lengths from a grid'
    K.run_harnesses(ctx, 'c13')
    K.report_failures(ctx, 'expand-message')
    native_differential(ctx)
    chk.assumptions += ['mock hash: 16-bit position-sensitive rolling state (a mutated composition has to agree with the RFC transcription for every symbolic byte to escape); '
                        'SHA-256/512 and SHAKE internals, and vec_result of real XOF readers, are not modelled',
                        'from_okm: Fq/Fr::mul_assign recorded by a stub (the literal multipliers F_2_256, F_2_192 equal 2^256 R, 2^192 R: C08 ground facts; Montgomery product: C08 S-lia)']
    chk.bounds.update({'lengths (msg, dst, len_in_bytes)': 'quick: xmd (3,3,7) (0,1,2) (5,0,4) (1,3,0), xof (3,3,7) (0,0,1); thorough adds (4,2,9) (8,8,16), xof (5,2,0) (2,8,16), 255 blocks served',
                       'limit': 'ell = 256 with a 1-byte digest aborts (should_panic harness); ell = 255 returns 255 bytes (thorough)',
                       'hash_to_field counts': '0..2 (quick), 3 (thorough); element length 3 bytes (mock)', 'reduction blocks': 'all 2^512 / 2^384 / 2^1024 byte blocks'})
    chk.trusted += ['Kani 0.68 / CBMC 6.11']


def replay(ctx, path):
    run(ctx)
    return 1 if ctx.chk.violations else 0
