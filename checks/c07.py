"""C07  safe API results stay in the order-r subgroup; the membership test is exact (partial; see level_note).

S: SubgroupCheck::in_subgroup = is_on_curve && [r]P == O (composition in EUF; the two conjuncts are decided in C04's S part and
re-run here), scale_by_cofactor multiplies by exactly h1 resp. h2 with h*r = #E (ground integer facts, twist order recomputed
from the trace), random() returns only non-identity cofactor-scaled points (control flow, EUF), generators on curve with order r."""
import z3
from mirsym import ref, models
from mirsym.sym import State, FE, GE, Agg, Enum, Ref, BV, Inconclusive, UNIT, Opaque
from mirsym.models import deref, opt_sym, some
from . import common as C
from . import c04, c08_mont


def isqrt(n):
    import math
    return math.isqrt(n)


def run(ctx):
    chk = ctx.chk
    ctx.explanation = ('EUF / exponent-domain symbolic execution of the membership predicate, cofactor scaling and random sampling from MIR; '
                       'exact-integer ground facts for group orders; closure of the safe API by induction over the other properties')
    q, r = ref.Q, ref.R_ORDER
    for gname, proj, aff, base in [('G1', 'ec::g1::G1', 'ec::g1::G1Affine', 'fq::Fq'), ('G2', 'ec::g2::G2', 'ec::g2::G2Affine', 'fq2::Fq2')]:
        pa = aff.replace('::', r'::')
        oc, sg = z3.Bool('on_curve'), z3.Bool('r_times_P_is_identity')
        order = []

        def h_oc(ex, st, m, a, order=order):
            order.append('curve')
            return oc

        def h_sg(ex, st, m, a, order=order):
            order.append('subgroup')
            return sg
        ex = C.new_executor(ctx, [(r'ec::%s::<impl [^>]+>::is_on_curve|%s::is_on_curve' % (gname.lower(), pa), h_oc),
                                  (r'ec::%s::<impl [^>]+>::is_in_correct_subgroup_assuming_on_curve|%s::is_in_correct_subgroup_assuming_on_curve' % (gname.lower(), pa), h_sg)])
        st = State()
        p = ex.alloc(st, Agg(aff, (Opaque('x'), Opaque('y'), z3.Bool('inf'))))
        res = ex.call(st, '<%s as SubgroupCheck>::in_subgroup' % aff, [p])
        chk.must_unsat('%s.in_subgroup = is_on_curve && ([r]P == O)' % gname, z3.Xor(C.mk(res), z3.And(oc, sg)), group='predicate')
        chk.ground('%s.in_subgroup tests the curve equation before the scalar multiplication' % gname, order[:1] == ['curve'], str(order))
        chk.add_executor(ex)
        # scale_by_cofactor multiplier
        D = models.GroupDomain(proj, aff).setup(1, proj, aff)
        ex = C.new_executor(ctx, D.models())
        fn = [f for f in ex.fns_named('scale_by_cofactor') if f.name.startswith('ec::%s::' % gname.lower())][0]
        st = State()
        pt = ex.alloc(st, GE(aff, [1]))
        out = ex.call_fn(st, fn, [pt], {'S': '[u64; %d]' % (2 if gname == 'G1' else 8)})
        h = ref.H1 if gname == 'G1' else ref.H2
        chk.ground('%s.scale_by_cofactor multiplies by exactly the cofactor h%s' % (gname, '1' if gname == 'G1' else '2'), out.c[0] == h, hex(out.c[0]))
        chk.add_executor(ex)
        # random(): returns scale_by_cofactor(get_point_from_x(..)) of an iteration in which a point was found and the scaled point is not O
        it = {'n': 0}
        found1, zero1 = z3.Bool('found_1'), z3.Bool('scaled_1_is_identity')
        Pt = z3.DeclareSort('Pt_' + gname)
        cand = [z3.Const('cand_%d' % i, Pt) for i in (1, 2)]
        scale = z3.Function('scale_by_cofactor_' + gname, Pt, Pt)

        def h_rand_field(ex, st, m, a):
            return Opaque('random field element')

        def h_next_u32(ex, st, m, a):
            return BV(32, False, z3.BitVec('rnd%d' % it['n'], 32))

        def h_gpx(ex, st, m, a, it=it):
            it['n'] += 1
            if it['n'] == 1:
                return opt_sym(found1, GE(aff, [cand[0]], tag=1))
            return some(GE(aff, [cand[1]], tag=2))

        def h_scale(ex, st, m, a):
            v = deref(ex, st, a[0])
            return GE(proj, [scale(v.c[0])], tag=v.tag)

        def h_isz(ex, st, m, a):
            v = deref(ex, st, a[0])
            return zero1 if v.tag == 1 else False
        pp_ = proj.replace('::', r'::')
        ex = C.new_executor(ctx, [(r'<.+ as (?:ff::)?Field>::random::<.+>', h_rand_field), (r'<.+ as (?:rand_core::)?RngCore>::next_u32', h_next_u32),
                                  (r'ec::%s::<impl [^>]+>::get_point_from_x|%s::get_point_from_x' % (gname.lower(), pa), h_gpx),
                                  (r'ec::%s::<impl [^>]+>::scale_by_cofactor|%s::scale_by_cofactor' % (gname.lower(), pa), h_scale),
                                  (r'<' + pp_ + r' as CurveProjective>::is_zero', h_isz)], generics_hint={'random': {'R': 'Rng'}})
        st = State()
        rng = ex.alloc(st, Opaque('rng'))
        out = ex.call(st, '<%s as CurveProjective>::random::<Rng>' % proj, [rng])
        want = z3.If(z3.And(found1, z3.Not(zero1)), scale(cand[0]), scale(cand[1]))
        chk.must_unsat('%s.random returns the cofactor-scaled candidate of the first iteration that finds a point whose scaled image is not O' % gname,
                       out.c[0] != want, group='random')
        chk.ground('%s.random loops again both when no point is found and when the scaled point is the identity' % gname, it['n'] == 3, str(it['n']))
        chk.add_executor(ex)
    # [r]P multiplier and curve equation (same obligations as in C04's S part)
    ids = c04.s_part(ctx)
    c04.subgroup_multiplier(ctx)
    # group orders
    t = ref.BLS_X * -1 + 1          # trace of Frobenius of E over Fq: t = x + 1 with x negative
    chk.ground('#E(Fq) = q + 1 - t = h1 * r  (t = x + 1)', q + 1 - t == ref.H1 * r and (q + 1 - t) % r == 0)
    t2 = t * t - 2 * q
    f2sq = (4 * q * q - t2 * t2)
    f2 = isqrt(f2sq // 3)
    twists = [q * q + 1 - t2, q * q + 1 + t2, q * q + 1 - (t2 + 3 * f2) // 2, q * q + 1 - (t2 - 3 * f2) // 2, q * q + 1 + (t2 + 3 * f2) // 2, q * q + 1 + (t2 - 3 * f2) // 2]
    chk.ground("#E'(Fq2) = h2 * r is the order of a sextic twist of E over Fq2 (recomputed from the trace: t2 = t^2 - 2q, 3 f^2 = 4 q^2 - t2^2)",
               3 * f2 * f2 == f2sq and ref.H2 * r in twists, 'h2*r matches twist #%s' % [i for i, v in enumerate(twists) if v == ref.H2 * r])
    chk.ground('gcd(h1, r) = gcd(h2, r) = 1 (cofactor scaling maps onto the order-r subgroup, no r^2 torsion)', ref.H1 % r != 0 and ref.H2 % r != 0)
    c08_mont.literals(ctx)
    chk.assumptions += ['closure of the safe API (induction, not a solver query): every constructor of a point either checks membership (decoders C04/C19), multiplies by a '
                        'cofactor multiple (random: here; clear_h: C17), or applies group operations to members (C01, C02, C10); hash/map outputs: C14',
                        'E(Fq) and E\'(Fq2) have the group structure Z/h x Z/r with gcd(h, r) = 1 (so [h] maps onto the subgroup and [r]P = O characterises it)']
    chk.trusted += ['rustc MIR printer', 'mirsym', 'z3']
    chk.discharge()
    ids.settle()
    C.settle_structural(ctx, ('case-structure', 'predicate', 'random'), 'subgroup')
    for g_ in chk.grounds:
        if not g_[1]:
            chk.ground_handled = getattr(chk, 'ground_handled', {})
            chk.ground_handled[g_[0]] = True
            ctx.violation('subgroup-ground:' + g_[0][:40], 'fact fails: %s (%s)' % (g_[0], g_[2]), {'fact': g_[0], 'detail': g_[2]})


def replay(ctx, path):
    run(ctx)
    return 1 if ctx.chk.violations else 0
