"""C07  safe API results stay in the order-r subgroup; the membership test is exact (partial; see level_note).

S: SubgroupCheck::in_subgroup = is_on_curve && [r]P == O (composition in EUF; the two conjuncts are decided in C04's S part and
re-run here), scale_by_cofactor multiplies by exactly h1 resp. h2 with h*r = #E (ground integer facts, twist order recomputed
from the trace), random() returns only non-identity cofactor-scaled points (control flow, EUF), generators on curve with order r."""
import z3
from mirsym import ref, models
from mirsym.sym import State, FE, GE, Agg, Enum, Ref, BV, Inconclusive, UNIT, Opaque
from mirsym.models import deref, opt_sym, some
from . import common as C
from . import c04, c08_mont


def isqrt(n):
    import math
    return math.isqrt(n)


def run(ctx):
    chk = ctx.chk
    ctx.explanation = ('EUF / exponent-domain symbolic execution of the membership predicate, cofactor scaling and random sampling from MIR; '
                       'exact-integer ground facts for group orders; closure of the safe API by induction over the other properties')
    q, r = ref.Q, ref.R_ORDER
    for gname, proj, aff, base in [('G1', 'ec::g1::G1', 'ec::g1::G1Affine', 'fq::Fq'), ('G2', 'ec::g2::G2', 'ec::g2::G2Affine', 'fq2::Fq2')]:
        pa = aff.replace('::', r'::')
        oc, sg = z3.Bool('on_curve'), z3.Bool('r_times_P_is_identity')
        order = []

        def h_oc(ex, st, m, a, order=order):
            order.append('curve')
            return oc

        def h_sg(ex, st, m, a, order=order):
            order.append('subgroup')
            return sg
        ex = C.new_executor(ctx, [(r'ec::%s::<impl [^>]+>::is_on_curve|%s::is_on_curve' % (gname.lower(), pa), h_oc),
                                  (r'ec::%s::<impl [^>]+>::is_in_correct_subgroup_assuming_on_curve|%s::is_in_correct_subgroup_assuming_on_curve' % (gname.lower(), pa), h_sg)])
        st = State()
        p = ex.alloc(st, Agg(aff, (Opaque('x'), Opaque('y'), z3.Bool('inf'))))
        res = ex.call(st, '<%s as SubgroupCheck>::in_subgroup' % aff, [p])
        chk.must_unsat('%s.in_subgroup = is_on_curve && ([r]P == O)' % gname, z3.Xor(C.mk(res), z3.And(oc, sg)), group='predicate')
        chk.note('%s.in_subgroup evaluation order of the two conjuncts: %s (informational; either order satisfies the property)' % (gname, order))
        chk.add_executor(ex)
        # scale_by_cofactor multiplier
        D = models.GroupDomain(proj, aff).setup(1, proj, aff)
        ex = C.new_executor(ctx, D.models())
        fn = [f for f in ex.fns_named('scale_by_cofactor') if f.name.startswith('ec::%s::' % gname.lower())][0]
        st = State()
        pt = ex.alloc(st, GE(aff, [1]))
        out = ex.call_fn(st, fn, [pt], {'S': '[u64; %d]' % (2 if gname == 'G1' else 8)})
        h = ref.H1 if gname == 'G1' else ref.H2
        chk.ground('%s.scale_by_cofactor multiplies by exactly the cofactor h%s' % (gname, '1' if gname == 'G1' else '2'), out.c[0] == h, hex(out.c[0]))
        chk.add_executor(ex)
        # random(): returns scale_by_cofactor(get_point_from_x(..)) of an iteration in which a point was found and the scaled point is not O
        it = {'n': 0}
        found1, zero1 = z3.Bool('found_1'), z3.Bool('scaled_1_is_identity')
        Pt = z3.DeclareSort('Pt_' + gname)
        cand = [z3.Const('cand_%d' % i, Pt) for i in (1, 2)]
        scale = z3.Function('scale_by_cofactor_' + gname, Pt, Pt)

        def h_rand_field(ex, st, m, a):
            return Opaque('random field element')

        def h_next_u32(ex, st, m, a):
            return BV(32, False, z3.BitVec('rnd%d' % it['n'], 32))

        def h_gpx(ex, st, m, a, it=it):
            it['n'] += 1
            if it['n'] == 1:
                return opt_sym(found1, GE(aff, [cand[0]], tag=1))
            return some(GE(aff, [cand[1]], tag=2))

        def h_scale(ex, st, m, a):
            v = deref(ex, st, a[0])
            return GE(proj, [scale(v.c[0])], tag=v.tag)

        def h_isz(ex, st, m, a):
            v = deref(ex, st, a[0])
            return zero1 if v.tag == 1 else False
        pp_ = proj.replace('::', r'::')
        ex = C.new_executor(ctx, [(r'<.+ as (?:ff::)?Field>::random::<.+>', h_rand_field), (r'<.+ as (?:rand_core::)?RngCore>::next_u32', h_next_u32),
                                  (r'ec::%s::<impl [^>]+>::get_point_from_x|%s::get_point_from_x' % (gname.lower(), pa), h_gpx),
                                  (r'ec::%s::<impl [^>]+>::scale_by_cofactor|%s::scale_by_cofactor' % (gname.lower(), pa), h_scale),
                                  (r'<' + pp_ + r' as CurveProjective>::is_zero', h_isz)], generics_hint={'random': {'R': 'Rng'}})
        st = State()
        rng = ex.alloc(st, Opaque('rng'))
        out = ex.call(st, '<%s as CurveProjective>::random::<Rng>' % proj, [rng])
        want = z3.If(z3.And(found1, z3.Not(zero1)), scale(cand[0]), scale(cand[1]))
        chk.must_unsat('%s.random returns the cofactor-scaled candidate of the first iteration that finds a point whose scaled image is not O' % gname,
                       out.c[0] != want, group='random')
        chk.ground('%s.random loops again both when no point is found and when the scaled point is the identity' % gname, it['n'] == 3, str(it['n']))
        chk.add_executor(ex)
    # [r]P multiplier and curve equation (same obligations as in C04's S part)
    ids = c04.s_part(ctx)
    c04.subgroup_multiplier(ctx)
    # group orders
    t = ref.BLS_X * -1 + 1          # trace of Frobenius of E over Fq: t = x + 1 with x negative
    chk.ground('#E(Fq) = q + 1 - t = h1 * r  (t = x + 1)', q + 1 - t == ref.H1 * r and (q + 1 - t) % r == 0)
    t2 = t * t - 2 * q
    f2sq = (4 * q * q - t2 * t2)
    f2 = isqrt(f2sq // 3)
    twists = [q * q + 1 - t2, q * q + 1 + t2, q * q + 1 - (t2 + 3 * f2) // 2, q * q + 1 - (t2 - 3 * f2) // 2, q * q + 1 + (t2 + 3 * f2) // 2, q * q + 1 + (t2 - 3 * f2) // 2]
    chk.ground("#E'(Fq2) = h2 * r is the order of a sextic twist of E over Fq2 (recomputed from the trace: t2 = t^2 - 2q, 3 f^2 = 4 q^2 - t2^2)",
               3 * f2 * f2 == f2sq and ref.H2 * r in twists, 'h2*r matches twist #%s' % [i for i, v in enumerate(twists) if v == ref.H2 * r])
    chk.ground('gcd(h1, r) = gcd(h2, r) = 1 (cofactor scaling maps onto the order-r subgroup, no r^2 torsion)', ref.H1 % r != 0 and ref.H2 % r != 0)
    c08_mont.literals(ctx)
    decoders(ctx)
    chk.assumptions += ['closure of the safe API (induction, not a solver query): every constructor of a point either checks membership (decoders C04/C19), multiplies by a '
                        'cofactor multiple (random: here; clear_h: C17), or applies group operations to members (C01, C02, C10); hash/map outputs: C14',
                        'E(Fq) and E\'(Fq2) have the group structure Z/h x Z/r with gcd(h, r) = 1 (so [h] maps onto the subgroup and [r]P = O characterises it)']
    chk.trusted += ['rustc MIR printer', 'mirsym', 'z3']
    chk.discharge()
    ids.settle()
    C.settle_structural(ctx, ('case-structure', 'predicate', 'random'), 'subgroup')
    bad = native_decoder_probes(ctx)
    for o in chk.failed():
        if o.group == 'decoders' and not getattr(o, 'handled', False):
            o.handled = True
            if not bad:
                ctx.inconclusive('decoder obligation fails (%s) but no native probe is accepted' % o.name)
    for g_ in chk.grounds:
        if not g_[1]:
            chk.ground_handled = getattr(chk, 'ground_handled', {})
            chk.ground_handled[g_[0]] = True
            ctx.violation('subgroup-ground:' + g_[0][:40], 'fact fails: %s (%s)' % (g_[0], g_[2]), {'fact': g_[0], 'detail': g_[2]})


def decoders(ctx):
    """the four CHECKED point decoders hand out a point only after the membership predicate has accepted it: the MIR of
    EncodedPoint::into_affine for G1/G2 Compressed/Uncompressed is executed with into_affine_unchecked, is_on_curve and in_subgroup
    uninterpreted (their own correctness is C04 / the predicate above) and all encoding bytes symbolic; Ok(p) is returned exactly when the
    unchecked decoder produced p, p passes in_subgroup and -- for the uncompressed forms, whose y is not derived from the curve equation --
    is_on_curve."""
    chk = ctx.chk
    for gname, aff, enc, size, unc in [('G1', 'ec::g1::G1Affine', 'ec::g1::G1Compressed', 48, False), ('G1', 'ec::g1::G1Affine', 'ec::g1::G1Uncompressed', 96, True),
                                        ('G2', 'ec::g2::G2Affine', 'ec::g2::G2Compressed', 96, False), ('G2', 'ec::g2::G2Affine', 'ec::g2::G2Uncompressed', 192, True)]:
        un_ok, oc, sg = z3.Bool('unchecked_ok'), z3.Bool('on_curve'), z3.Bool('in_subgroup')
        pt = Agg(aff, (Opaque('x'), Opaque('y'), z3.Bool('inf')))

        def h_un(ex, st, m, a, pt=pt, un_ok=un_ok):
            return Enum('Result', z3.If(un_ok, z3.BitVecVal(0, 64), z3.BitVecVal(1, 64)), {'Ok': (pt,), 'Err': (Enum('GroupDecodingError', z3.BitVec('unchecked_error_kind', 64), {}),)})

        def h_branch(ex, st, m, a):
            r = a[0]
            return Enum('ControlFlow', r.disc, {'Continue': r.payload['Ok'], 'Break': (Enum('Result', 1, {'Err': r.payload['Err']}),)})

        def h_resid(ex, st, m, a):
            return Enum('Result', 1, {'Err': a[0].payload['Err']})
        pe = enc.replace('::', r'::')
        pa = aff.replace('::', r'::')
        ex = C.new_executor(ctx, [(r'<%s as EncodedPoint>::into_affine_unchecked' % pe, h_un),
                                  (r'<Result<.+> as (?:std::ops::)?Try>::branch', h_branch),
                                  (r'<Result<.+> as (?:std::ops::)?FromResidual<.+>>::from_residual', h_resid),
                                  (r'ec::%s::<impl [^>]+>::is_on_curve|%s::is_on_curve' % (gname.lower(), pa), lambda ex, st, m, a, oc=oc: oc),
                                  (r'<%s as SubgroupCheck>::in_subgroup' % pa, lambda ex, st, m, a, sg=sg: sg)])
        fl = [f for f in ex.fns_named('into_affine') if len(f.params) == 1 and enc.split('::')[-1] in f.params[0][1]]
        if len(fl) != 1:
            raise Inconclusive('into_affine body for %s: %d candidates' % (enc, len(fl)))
        st = State()
        data = [z3.BitVec('byte%d' % i, 8) for i in range(size)]
        me = ex.alloc(st, Agg(enc, (Agg('[array]', [BV(8, False, b) for b in data]),)))
        nob = len(ex.obligations)
        r = ex.call_fn(st, fl[0], [me], {})
        name = '%s::into_affine' % enc.split('::')[-1]
        is_ok = (r.disc == 0) if not isinstance(r.disc, int) else z3.BoolVal(r.disc == 0)
        want = z3.And(un_ok, sg, oc) if unc else z3.And(un_ok, sg)
        chk.must_unsat('%s returns Ok exactly when the unchecked decoder succeeded and the point passed %sin_subgroup (for every encoding)' % (name, 'is_on_curve and ' if unc else ''),
                       z3.Xor(is_ok, want), group='decoders')
        okp = r.payload.get('Ok', (None,))[0]
        same = isinstance(okp, Agg) and len(okp.f) == 3 and all(x is y_ or (hasattr(x, 'what') and hasattr(y_, 'what') and x.what == y_.what) or (z3.is_expr(x) and z3.is_expr(y_) and x.eq(y_))
                                                                   for x, y_ in zip(okp.f, pt.f))
        chk.ground('%s hands out the point the unchecked decoder produced, unchanged' % name, same, repr(okp)[:100])
        chk.must_unsat_any('%s: no panic' % name, [o.formula() for o in ex.obligations[nob:]])
        ex.harvested = len(ex.obligations)
        chk.add_executor(ex)


def native_decoder_probes(ctx):
    """replay target for the decoder obligations (and a supplementary oracle): encodings of curve points OUTSIDE the order-r subgroup and of
    off-curve pairs, with either value of the sort flag, through the native checked decoders -- none may be accepted"""
    import random
    from mirsym import load
    q, r = ref.Q, ref.R_ORDER
    rnd = random.Random(ctx.seed + 7)

    def be(v, n=48):
        return v.to_bytes(n, 'big')
    probes = []
    # G1: the order-3 points (0, +-2) and a random curve point (in the subgroup with probability 1/h1 ~ 2^-125)
    pts1 = [(0, 2), (0, q - 2)]
    x = rnd.randrange(q)
    while ref.fq_sqrt((x ** 3 + 4) % q) is None:
        x = rnd.randrange(q)
    y = ref.fq_sqrt((x ** 3 + 4) % q)
    pts1 += [(x, y), (x, q - y)]
    for (x, y) in pts1:
        if ref.E1.smul(r, (x, y)) is None:
            continue
        big = y > (q - y)
        for flag in (0x80, 0xa0):
            if (flag == 0xa0) != big:
                continue            # the sort flag has to agree with y, otherwise it is simply the encoding of the other root
            b = bytearray(be(x))
            b[0] |= flag
            probes.append(('g1c', bytes(b), 'G1 compressed, curve point outside the subgroup, sort flag %s' % ('set' if flag == 0xa0 else 'clear')))
        probes.append(('g1u', be(x) + be(y), 'G1 uncompressed, curve point outside the subgroup'))
    probes.append(('g1u', be(5) + be(7), 'G1 uncompressed, off-curve pair'))
    # G2: small x with a square right-hand side (a random curve point of E'(Fq2))
    pts2 = []
    for x0 in range(1, 40):
        xx = (x0, 0)
        yy = ref.f2_sqrt(ref.f2_add(ref.f2_mul(ref.f2_sqr(xx), xx), (4, 4)))
        if yy is not None and ref.E2.smul(r, (xx, yy)) is not None:
            pts2 += [(xx, yy), (xx, ref.f2_neg(yy))]
            if len(pts2) >= 4:
                break
    for (xx, yy) in pts2:
        ny = ref.f2_neg(yy)
        big = (yy[1], yy[0]) > (ny[1], ny[0])
        b = bytearray(be(xx[1]) + be(xx[0]))
        b[0] |= 0xa0 if big else 0x80
        probes.append(('g2c', bytes(b), 'G2 compressed, curve point outside the subgroup, sort flag %s' % ('set' if big else 'clear')))
        probes.append(('g2u', be(xx[1]) + be(xx[0]) + be(yy[1]) + be(yy[0]), 'G2 uncompressed, curve point outside the subgroup'))
    probes.append(('g2u', be(0) + be(5) + be(0) + be(7), 'G2 uncompressed, off-curve pair'))
    n = load.Native('release')
    try:
        outs = n.run(['decode %s %s' % (k, b.hex()) for k, b, _ in probes])
    finally:
        n.close()
    bad = [(k, b, nm, o) for (k, b, nm), o in zip(probes, outs) if o.startswith('ok')]
    # results of arithmetic stay members: batch_normalization over a slice that contains identities (canonical and computed) between
    # subgroup points in non-normalised representation must leave every entry the point it was
    nb = load.Native('release')
    try:
        g = [tuple(int(t, 16) for t in o.split()) for o in nb.run(['g1_mul %x' % k_ for k_ in (3, 5)])]
        l1, l2 = rnd.randrange(2, q), rnd.randrange(2, q)
        trip = [(g[0][0] * l1 * l1 % q, g[0][1] * pow(l1, 3, q) % q, l1), (0, 1, 0), (g[1][0] * l2 * l2 % q, g[1][1] * pow(l2, 3, q) % q, l2), (5, 7, 0), (g[1][0], g[1][1], 1)]
        cmd = 'g1_batchnorm ' + ' '.join('%x %x %x' % t for t in trip)
        bo = nb.run([cmd])[0]
    finally:
        nb.close()
    want_pts = [g[0], None, g[1], None, g[1]]
    okb = True
    parts = bo.split(' | ')
    if len(parts) != len(trip):
        okb = False
    else:
        for part, wp in zip(parts, want_pts):
            f_ = part.split()
            X, Y, Z = int(f_[0], 16), int(f_[1], 16), int(f_[2], 16)
            flags = dict(kv.split('=') for kv in f_[3:])
            got_pt = ref.E1.from_jac(X, Y, Z)
            if got_pt != wp or flags.get('member') != 'true' or (flags.get('zero') == 'true') != (wp is None):
                okb = False
    ctx.chk.extra['native_batch_normalization_probe'] = {'entries': len(trip), 'ok': okb}
    if not okb:
        ctx.violation('subgroup-arithmetic-native:batch_normalization', 'batch_normalization changes the points of a slice that contains identities (a result leaves the curve / the subgroup): %s' % bo[:200],
                      {'cmd': cmd, 'got': bo, 'expected': 'every entry represents the same point as before; identities stay identities; all members', 'profile': 'release'})
    ctx.chk.extra['native_decoder_probes'] = {'probes': len(probes), 'accepted': len(bad), 'role': 'replay target / supplementary oracle'}
    seen = set()
    for k, b, nm, o in bad:
        key = 'subgroup-decoder-native:%s:%s' % (k, 'sort-flag-set' if 'flag set' in nm else 'sort-flag-clear' if 'flag clear' in nm else 'plain')
        if key in seen:
            continue
        seen.add(key)
        ctx.violation(key, 'the checked decoder accepts an encoding of a point that is not in the order-r subgroup (%s): %s' % (nm, o[:60]),
                      {'cmd': 'decode %s %s' % (k, b.hex()), 'what': nm, 'got': o, 'expected': 'err NotInSubgroup / NotOnCurve', 'profile': 'release'})
    return bad


def replay(ctx, path):
    run(ctx)
    return 1 if ctx.chk.violations else 0
