"""C12  final exponentiation is f -> f^(3(q^12-1)/r) on every non-zero f; None exactly for 0.

Engine S, exponent domain: the real MIR of Bls12::final_exponentiation (incl. the nested exp_by_x) is
executed on a formal unit g of Fq12^* (cyclic of order q^12-1); every Fq12 operation acts on the
exponent.  The result's exponent is one ~4600-bit integer; the obligations are ground
integer facts about it, decided by z3."""
import z3
from mirsym import ref, models
from mirsym.sym import State, GE, Enum, Inconclusive, BV
from . import common as C


def run(ctx):
    chk = ctx.chk
    fns, consts, info = ctx.mir()
    ctx.explanation = ('symbolic execution of final_exponentiation over the exponent of a formal generator of Fq12^*; '
                       'obligations are integer (in)equalities about the resulting exponent decided by z3')
    # q and r are read from the crate's own constants and cross-checked with independent literals
    ex0 = C.new_executor(ctx, [])
    st = State()
    qv = _limbs_int(ex0.named_const(st, 'fq::MODULUS'))
    rv = _limbs_int(ex0.named_const(st, 'fr::MODULUS'))
    bx = ex0.named_const(st, 'BLS_X')
    bneg = ex0.named_const(st, 'BLS_X_IS_NEGATIVE')
    chk.ground('fq::MODULUS literal = q of BLS12-381', qv == ref.Q, hex(qv))
    chk.ground('fr::MODULUS literal = r of BLS12-381', rv == ref.R_ORDER, hex(rv))
    chk.ground('BLS_X = 0xd201000000010000 and negative', isinstance(bx, BV) and bx.v == ref.BLS_X and bneg is True, repr(bx))
    q, r = ref.Q, ref.R_ORDER
    D = models.UnitGroupDomain(qv)
    N = qv ** 12 - 1
    zf = z3.Bool('f_is_zero')
    # code may inspect the Fq6 halves of the input (f = c0 + c1 w): c1 = 0 <=> f in Fq6 <=> f = 0 or (q^6+1) | exponent
    from mirsym.sym import Opaque

    def fe_field(v, i):
        if isinstance(v, GE) and v.ty == 'fq12::Fq12' and i in (0, 1):
            return Opaque(('fq6-half', i, v))
        return None

    def h_fq6_is_zero(ex_, st_, m, a):
        from mirsym.models import deref as _d
        t = _d(ex_, st_, a[0])
        if isinstance(t, Opaque) and t.what[0] == 'fq6-half':
            _, i, v = t.what
            e = v.c[0]
            if i == 1:
                return z3.Or(C.mk(v.tag), z3.BoolVal(e % (qv ** 6 + 1) == 0))          # c1 = 0  <=>  f in Fq6
            return z3.Or(C.mk(v.tag), z3.BoolVal(False))                               # c0 = 0 for a unit: f in w*Fq6, not modelled further
        return NotImplemented
    ex = C.new_executor(ctx, [(r'<fq6::Fq6 as (?:ff::)?Field>::is_zero', h_fq6_is_zero)] + D.models())
    ex.fe_field = fe_field
    st = State()
    rf = ex.alloc(st, D.mk(1, zf))
    res = ex.call(st, '<Bls12 as Engine>::final_exponentiation', [rf])
    if not isinstance(res, Enum):
        raise Inconclusive('final_exponentiation returned %r' % (res,))
    out = res.payload['Some'][0]
    E = out.c[0]
    if not isinstance(E, int):
        # the exponent depends on a case split (e.g. on the zero flag): it must be the same integer on every path where the result is Some
        Es = z3.simplify(z3.substitute(E, (zf, z3.BoolVal(False)))) if z3.is_expr(E) else E
        if z3.is_expr(Es) and z3.is_int_value(Es):
            chk.must_unsat('the exponent of the result does not depend on the case split when f != 0', z3.And(z3.Not(zf), res.disc == 1, E != Es), group='exponent')
            E = Es.as_long()
        else:
            raise Inconclusive('result exponent is not a single integer: %s' % str(E)[:200])
    want = 3 * ((q ** 12 - 1) // r)
    chk.bounds = {'loops': 'exp_by_x: pow over 64 exponent bits, applied as multiplication of the exponent (leaf contract of Field::pow)',
                  'inputs': 'all units of Fq12 (formal generator) and the zero element (symbolic flag)'}
    Ez, Nz = z3.IntVal(E), z3.IntVal(N)
    chk.must_unsat('exponent == 3(q^12-1)/r (mod q^12-1)', (Ez - z3.IntVal(want)) % Nz != 0, group='exponent')
    chk.must_unsat('r * E == 0 (mod q^12-1): image consists of r-th roots of unity', (z3.IntVal(r) * Ez) % Nz != 0, group='exponent')
    for d, nm in [(1, 'Fq'), (2, 'Fq2'), (4, 'Fq4'), (6, 'Fq6')]:
        chk.must_unsat('(q^%d-1) divides E: units of %s (= g^(k(q^12-1)/(q^%d-1))) map to 1' % (d, nm, d),
                       Ez % z3.IntVal(q ** d - 1) != 0, group='exponent')
    chk.must_unsat('E != 0 mod (q^12-1): the map is not constant', Ez % Nz == 0, group='exponent')
    chk.must_unsat('gcd structure: E = 3 * (q^12-1)/r exactly as integers below the modulus', Ez != z3.IntVal(want % N), group='exponent')
    chk.must_unsat('result is None exactly when f = 0', z3.Xor(res.disc == 0, zf), group='case-structure')
    chk.must_sat('both outcomes reachable (Some)', res.disc == 1)
    chk.must_sat('both outcomes reachable (None)', res.disc == 0)
    chk.panic_obligations(ex, 'final_exponentiation')
    chk.extra['exponent_bits'] = int(E).bit_length()
    chk.extra['group_ops_interpreted'] = D.ops
    chk.assumptions += ['Fq12 mul/square/inverse/conjugate/frobenius_map/pow act on exponents as x+y, 2x, -x, q^6 x, q^k x, e x '
                        '(C09: ring identities, conjugate = Frobenius^6, Frobenius = x^(q^k)); Fq12^* is cyclic of order q^12-1',
                        'Field::pow(exp) = self^exp (ff-zeroize 0.6.3 default method; leaf contract)']
    chk.trusted += ['rustc MIR printer', 'mirsym', 'z3']
    chk.add_executor(ex)
    chk.add_executor(ex0)
    chk.discharge()
    for o in chk.failed():
        o.handled = True
        ctx.violation('final_exp:' + o.name[:40], 'final exponentiation: %s fails; computed exponent E=%s...' % (o.name, hex(E)[:40]),
                      {'obligation': o.name, 'exponent_hex': hex(E), 'expected_hex': hex(want % N)})
    for g in chk.grounds:
        if not g[1]:
            chk.ground_handled = getattr(chk, 'ground_handled', {})
            chk.ground_handled[g[0]] = True
            ctx.violation('final_exp-ground:' + g[0][:30], 'constant mismatch: %s (%s)' % (g[0], g[2]), {'fact': g[0], 'detail': g[2]})


def _limbs_int(v):
    from mirsym.models import _const_limbs
    l = _const_limbs(v)
    if l is None:
        raise Inconclusive('constant limbs expected: %r' % (v,))
    return sum(x << (64 * i) for i, x in enumerate(l))


def replay(ctx, path):
    run(ctx)
    return 1 if ctx.chk.violations else 0
