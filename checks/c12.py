"""C12  final exponentiation is f -> f^(3(q^12-1)/r) on every non-zero f; None exactly for 0.

Engine S, exponent domain: the real MIR of Bls12::final_exponentiation (incl. the nested exp_by_x) is
executed on a formal unit g of Fq12^* (cyclic of order q^12-1); every Fq12 operation acts on the
exponent.  The result's exponent is one ~4600-bit integer; the obligations are ground
integer facts about it, decided by z3."""
import z3
from mirsym import ref, models
from mirsym.sym import State, GE, Enum, Inconclusive, BV
from . import common as C


def run(ctx):
    chk = ctx.chk
    fns, consts, info = ctx.mir()
    ctx.explanation = ('symbolic execution of final_exponentiation over the exponent of a formal generator of Fq12^*; '
                       'obligations are integer (in)equalities about the resulting exponent decided by z3')
    # q and r are read from the crate's own constants and cross-checked with independent literals
    ex0 = C.new_executor(ctx, [])
    st = State()
    qv = _limbs_int(ex0.named_const(st, 'fq::MODULUS'))
    rv = _limbs_int(ex0.named_const(st, 'fr::MODULUS'))
    bx = ex0.named_const(st, 'BLS_X')
    bneg = ex0.named_const(st, 'BLS_X_IS_NEGATIVE')
    chk.ground('fq::MODULUS literal = q of BLS12-381', qv == ref.Q, hex(qv))
    chk.ground('fr::MODULUS literal = r of BLS12-381', rv == ref.R_ORDER, hex(rv))
    chk.ground('BLS_X = 0xd201000000010000 and negative', isinstance(bx, BV) and bx.v == ref.BLS_X and bneg is True, repr(bx))
    q, r = ref.Q, ref.R_ORDER
    want = 3 * ((q ** 12 - 1) // r)
    sym = {}

    def _symbolic():
        D = models.UnitGroupDomain(qv)
        N = qv ** 12 - 1
        zf = z3.Bool('f_is_zero')
        # The input is f = g^e for a SYMBOLIC integer e (g a formal generator of the cyclic group Fq12^*): every value the code computes
        # is g^(c*e) with c a concrete integer (all operations are linear on exponents), and every data-dependent test the code may make
        # -- is_zero / == on Fq12, "c1 = 0" (f in Fq6), "c0 = 0" (f in w*Fq6) -- is a congruence on c*e, i.e. a predicate on e.
        e_sym = z3.Int('e')
        M6 = qv ** 6 + 1
        from mirsym.sym import Opaque
        import math

        def times_e(c):
            """c * e for an exponent coefficient c (python int, or an if-then-else tree of them produced by a merge)"""
            if isinstance(c, int):
                return z3.IntVal(c) * e_sym
            if z3.is_int_value(c):
                return c * e_sym
            if z3.is_app(c) and c.decl().kind() == z3.Z3_OP_ITE:
                return z3.If(c.arg(0), times_e(c.arg(1)), times_e(c.arg(2)))
            return c * e_sym

        def congruent(c, residue, modulus):
            """c * e == residue (mod modulus) as a predicate on e"""
            if isinstance(c, int) and residue == 0:
                d = modulus // math.gcd(c % modulus, modulus)
                return z3.BoolVal(True) if d == 1 else (e_sym % z3.IntVal(d) == 0)
            if isinstance(c, int):
                return (z3.IntVal(c % modulus) * e_sym) % z3.IntVal(modulus) == z3.IntVal(residue)
            return times_e(c) % z3.IntVal(modulus) == z3.IntVal(residue)

        def fe_field(v, i):
            if isinstance(v, GE) and v.ty == 'fq12::Fq12' and i in (0, 1):
                return Opaque(('fq6-half', i, v))
            return None

        def h_fq6_is_zero(ex_, st_, m, a):
            from mirsym.models import deref as _d
            t = _d(ex_, st_, a[0])
            if isinstance(t, Opaque) and t.what[0] == 'fq6-half':
                _, i, v = t.what
                c = v.c[0]
                if i == 1:
                    return z3.Or(C.mk(v.tag), congruent(c, 0, M6))                 # c1 = 0  <=>  f = 0 or f in Fq6   <=>  (q^6+1) | c e
                return z3.Or(C.mk(v.tag), congruent(c, M6 // 2, M6))               # c0 = 0  <=>  f = 0 or f in w Fq6 <=>  f^(q^6-1) = -1
            return NotImplemented

        def h_is_zero(ex_, st_, m, a):
            from mirsym.models import deref as _d
            v = _d(ex_, st_, a[0])
            return C.mk(v.tag) if isinstance(v, GE) else NotImplemented

        def h_eq(ex_, st_, m, a):
            from mirsym.models import deref as _d
            x, y = _d(ex_, st_, a[0]), _d(ex_, st_, a[1])
            if not (isinstance(x, GE) and isinstance(y, GE)):
                return NotImplemented
            tx, ty_ = C.mk(x.tag), C.mk(y.tag)
            return z3.Or(z3.And(tx, ty_), z3.And(z3.Not(tx), z3.Not(ty_), congruent(x.c[0] - y.c[0], 0, N)))

        def h_ne(ex_, st_, m, a):
            r_ = h_eq(ex_, st_, m, a)
            return NotImplemented if r_ is NotImplemented else z3.Not(r_)
        ex = C.new_executor(ctx, [(r'<fq6::Fq6 as (?:ff::)?Field>::is_zero', h_fq6_is_zero), (r'<fq12::Fq12 as (?:ff::)?Field>::is_zero', h_is_zero),
                                  (r'<fq12::Fq12 as PartialEq>::eq', h_eq), (r'<fq12::Fq12 as PartialEq>::ne', h_ne)] + D.models())
        ex.fe_field = fe_field
        st = State()
        rf = ex.alloc(st, D.mk(1, zf))
        res = ex.call(st, '<Bls12 as Engine>::final_exponentiation', [rf])
        if not isinstance(res, Enum):
            raise Inconclusive('final_exponentiation returned %r' % (res,))
        out = res.payload['Some'][0]
        E = out.c[0]
        symbolic_E = None
        if not isinstance(E, int):
            Es = z3.simplify(E) if z3.is_expr(E) else E
            if z3.is_expr(Es) and z3.is_int_value(Es):
                E = Es.as_long()
            else:
                # the exponent coefficient depends on data-dependent tests (predicates on e, on the zero flag): the claim is then
                # for every e:  E(e) * e = want * e  (mod q^12-1)  whenever the result is Some
                symbolic_E = E
                chk.must_unsat('for every input f = g^e != 0: result exponent E(e)*e == (3(q^12-1)/r)*e (mod q^12-1) on every branch',
                               z3.And(z3.Not(zf), res.disc == 1, (times_e(E) - z3.IntVal(want) * e_sym) % z3.IntVal(N) != 0), group='exponent', meta='symbolic-exponent')
                chk.must_unsat('result is None exactly when f = 0', z3.Xor(res.disc == 0, zf), group='case-structure')
                chk.panic_obligations(ex, 'final_exponentiation')
                # the generic branch (e = 1: no special structure) still has to give the exact integer
                Eg = z3.simplify(z3.substitute(E, (e_sym, z3.IntVal(1)), (zf, z3.BoolVal(False))))
                E = Eg.as_long() if z3.is_int_value(Eg) else None
                if E is None:
                    raise Inconclusive('result exponent on the generic branch is not an integer: %s' % str(Eg)[:200])
        chk.bounds = {'loops': 'exp_by_x: pow over 64 exponent bits, applied as multiplication of the exponent (leaf contract of Field::pow)',
                      'inputs': 'all units of Fq12 (formal generator) and the zero element (symbolic flag)'}
        Ez, Nz = z3.IntVal(E), z3.IntVal(N)
        chk.must_unsat('exponent == 3(q^12-1)/r (mod q^12-1)', (Ez - z3.IntVal(want)) % Nz != 0, group='exponent')
        chk.must_unsat('r * E == 0 (mod q^12-1): image consists of r-th roots of unity', (z3.IntVal(r) * Ez) % Nz != 0, group='exponent')
        for d, nm in [(1, 'Fq'), (2, 'Fq2'), (4, 'Fq4'), (6, 'Fq6')]:
            chk.must_unsat('(q^%d-1) divides E: units of %s (= g^(k(q^12-1)/(q^%d-1))) map to 1' % (d, nm, d),
                           Ez % z3.IntVal(q ** d - 1) != 0, group='exponent')
        chk.must_unsat('E != 0 mod (q^12-1): the map is not constant', Ez % Nz == 0, group='exponent')
        chk.must_unsat('gcd structure: E = 3 * (q^12-1)/r exactly as integers below the modulus', Ez != z3.IntVal(want % N), group='exponent')
        if symbolic_E is None:
            chk.must_unsat('result is None exactly when f = 0', z3.Xor(res.disc == 0, zf), group='case-structure')
        chk.must_sat('both outcomes reachable (Some)', res.disc == 1)
        chk.must_sat('both outcomes reachable (None)', res.disc == 0)
        if symbolic_E is None:
            chk.panic_obligations(ex, 'final_exponentiation')
        chk.extra['exponent_bits'] = int(E).bit_length()
        chk.extra['group_ops_interpreted'] = D.ops
        chk.assumptions += ['Fq12 mul/square/inverse/conjugate/frobenius_map/pow act on exponents as x+y, 2x, -x, q^6 x, q^k x, e x '
                            '(C09: ring identities, conjugate = Frobenius^6, Frobenius = x^(q^k)); Fq12^* is cyclic of order q^12-1',
                            'Field::pow(exp) = self^exp (ff-zeroize 0.6.3 default method; leaf contract)']
        chk.trusted += ['rustc MIR printer', 'mirsym', 'z3']
        chk.add_executor(ex)
        chk.add_executor(ex0)
        sym['E'] = E
    try:
        _symbolic()
    except Exception as e_:          # whatever stops the symbolic part, the native differential below still runs
        ctx.inconclusive('encoder: %s' % e_)
    E = sym.get('E', 0)
    chk.discharge()
    bad = native_differential(ctx, want)
    for (nm, x, got, wtxt) in bad[:3]:
        ctx.violation('final_exp-native:' + nm, 'final_exponentiation(%s) differs from f^(3(q^12-1)/r): got %s..., want %s...' % (nm, got[:40], wtxt[:40]),
                      {'input_class': nm, 'input': [[list(f2_) for f2_ in h] for h in x], 'got': got, 'expected': wtxt, 'profile': 'release'})
    for o in chk.failed():
        if o.meta == 'symbolic-exponent' and not bad:
            # the solver's e has no native counterpart unless one of the structured inputs shows the difference
            ctx.inconclusive('solver counterexample for %s is not reproduced by any structured native input' % o.name)
            o.handled = True
            continue
        o.handled = True
        ctx.violation('final_exp:' + o.name[:40], 'final exponentiation: %s fails; computed exponent E=%s...' % (o.name, hex(E)[:40]),
                      {'obligation': o.name, 'exponent_hex': hex(E), 'expected_hex': hex(want % N)})
    for g in chk.grounds:
        if not g[1]:
            chk.ground_handled = getattr(chk, 'ground_handled', {})
            chk.ground_handled[g[0]] = True
            ctx.violation('final_exp-ground:' + g[0][:30], 'constant mismatch: %s (%s)' % (g[0], g[2]), {'fact': g[0], 'detail': g[2]})


def native_differential(ctx, want):
    """supplementary oracle and replay target for solver counterexamples: the native final_exponentiation on structured inputs -- zero, +-1,
    the tower generators u, v, w, elements of Fq, Fq2, Fq6, of w*Fq6 (zero Fq6 component), random elements -- against f^(3(q^12-1)/r)
    computed with the independent big-integer tower of mirsym/ref.py"""
    import random
    from mirsym import load
    rnd = random.Random(ctx.seed * 31337 + 12)
    q = ref.Q

    def rf2():
        return (rnd.randrange(q), rnd.randrange(q))

    def rf6():
        return (rf2(), rf2(), rf2())
    Z2, Z6 = ref.F2_ZERO, ref.F6_ZERO
    cases = [('zero', ref.F12_ZERO), ('one', ref.F12_ONE), ('minus one', ((( q - 1, 0), Z2, Z2), Z6)), ('u', (((0, 1), Z2, Z2), Z6)),
             ('v', ((Z2, ref.F2_ONE, Z2), Z6)), ('w', (Z6, ref.F6_ONE)), ('w * Fq6 element', (Z6, rf6())), ('Fq element', (((rnd.randrange(1, q), 0), Z2, Z2), Z6)),
             ('Fq2 element', ((rf2(), Z2, Z2), Z6)), ('Fq6 element', (rf6(), Z6)), ('random', (rf6(), rf6()))]
    if ctx.tier != 'quick':
        cases += [('w * Fq2 element', (Z6, (rf2(), Z2, Z2))), ('c0 in Fq2, c1 random', ((rf2(), Z2, Z2), rf6())), ('random 2', (rf6(), rf6()))]

    def flat12(x):
        return [c for h in x for f2_ in h for c in f2_]
    n = load.Native('release')
    try:
        outs = n.run(['final_exp ' + ' '.join('%x' % c for c in flat12(x)) for _, x in cases])
    finally:
        n.close()
    bad = []
    for (nm, x), o in zip(cases, outs):
        if x == ref.F12_ZERO:
            wtxt = 'none'
        else:
            wtxt = 'some ' + ' '.join('%096x' % c for c in flat12(ref.f12_pow(x, want)))
        if o.strip() != wtxt:
            bad.append((nm, x, o.strip(), wtxt))
    ctx.chk.extra['native_differential'] = {'cases': [c[0] for c in cases], 'disagreements': [b[0] for b in bad],
                                            'role': 'supplementary oracle / replay target (sampling on structured inputs); the deciding method is the solver run'}
    return bad


def _limbs_int(v):
    from mirsym.models import _const_limbs
    l = _const_limbs(v)
    if l is None:
        raise Inconclusive('constant limbs expected: %r' % (v,))
    return sum(x << (64 * i) for i, x in enumerate(l))


def replay(ctx, path):
    run(ctx)
    return 1 if ctx.chk.violations else 0
