"""C02  every scalar-multiplication path computes [k]P.

S-exp/bv: the G1 and G2 MIR of mul_assign, CurveAffine::mul (mul_bits), precomp_3 + mul_precomp_3,
precomp_256 + mul_precomp_256 is executed with the scalar's four 64-bit limbs symbolic and points as
exponents (bit-vectors) over a formal generator; result exponent == k for all 2^256 scalars.
wNAF: wnaf_form by one inductive step of the real loop body per window 2..=22 (bit-precise FrRepr code),
wnaf_table / wnaf_exp by inductive steps, Wnaf context plumbing in EUF, window recommendations in range."""
import z3
from mirsym import ref, models
from mirsym.sym import State, GE, BV, Agg, Enum, Ref, Inconclusive, LazySeq, CutReached, Frame, UNIT
from mirsym.models import deref
from . import common as C

W = 260     # width of exponent bit-vectors (scalars are 256 bits; every intermediate multiple stays below 2^258)


def frrepr(prefix):
    limbs = [z3.BitVec('%s%d' % (prefix, i), 64) for i in range(4)]
    val = Agg('fr::FrRepr', (Agg('[array]', [BV(64, False, l) for l in limbs]),))
    k = z3.Concat(limbs[3], limbs[2], limbs[1], limbs[0])
    return val, z3.ZeroExt(W - 256, k), limbs


def groups():
    return [('G1', 'ec::g1::G1', 'ec::g1::G1Affine'), ('G2', 'ec::g2::G2', 'ec::g2::G2Affine')]


def group_executor(ctx, proj, aff, extra=(), **kw):
    D = models.GroupDomain(proj, aff).setup(1, proj, aff)
    ex = C.new_executor(ctx, D.models(), extra_models=extra, **kw)
    return ex, D


def g(ty, e):
    return GE(ty, [e])


def one(ty):
    return g(ty, z3.BitVecVal(1, W))


def zero(ty):
    return g(ty, z3.BitVecVal(0, W))


def part_plain(ctx, only=None):
    chk = ctx.chk
    for gname, proj, aff in groups():
        ex, D = group_executor(ctx, proj, aff, generics_hint={'mul_assign': {'S': 'fr::FrRepr'}, 'mul': {'S': 'fr::FrRepr'},
                                                              'mul_precomp_3': {'S': 'fr::FrRepr'}, 'mul_precomp_256': {'S': 'fr::FrRepr'},
                                                              'mul_bits': {'S': 'fr::FrRepr'}})
        kval, k, limbs = frrepr('k')
        # --- projective mul_assign
        nob = len(ex.obligations)
        st = State()
        rp = ex.alloc(st, one(proj))
        ex.call(st, '<%s as CurveProjective>::mul_assign::<fr::FrRepr>' % proj, [rp, kval])
        r = ex.load(st, rp).c[0]
        chk.must_unsat('%s.mul_assign(k) = [k]P for every 256-bit k' % gname, r != k, group='scalar-mul', cap=400)
        # --- affine mul (mul_bits, mixed additions)
        st = State()
        ra = ex.alloc(st, one(aff))
        r = ex.call(st, '<%s as CurveAffine>::mul::<fr::FrRepr>' % aff, [ra, kval])
        chk.must_unsat('%s affine mul(k) = [k]P for every 256-bit k' % gname, r.c[0] != k, group='scalar-mul')
        # --- precomp_3 / mul_precomp_3
        st = State()
        ra = ex.alloc(st, one(aff))
        arr = ex.alloc(st, Agg('[array]', [zero(aff)] * 3))
        pre = Ref(arr.addr, (), BV(64, False, 0), BV(64, False, 3))
        ex.call(st, '<%s as CurveAffine>::precomp_3' % aff, [ra, pre])
        tab = ex.load(st, arr)
        for i in range(3):
            chk.must_unsat('%s.precomp_3: pre[%d] = [2^%d]P' % (gname, i, 64 * (i + 1)),
                           tab.f[i].c[0] != z3.BitVecVal(1 << (64 * (i + 1)), W), group='tables')
        r = ex.call(st, '<%s as CurveAffine>::mul_precomp_3::<fr::FrRepr>' % aff, [ra, kval, pre])
        chk.must_unsat('%s.mul_precomp_3(k, precomp_3(P)) = [k]P for every 256-bit k' % gname, r.c[0] != k, group='scalar-mul')
        # --- precomp_256 / mul_precomp_256
        st = State()
        ra = ex.alloc(st, one(aff))
        arr = ex.alloc(st, Agg('[array]', [zero(aff)] * 256))
        pre = Ref(arr.addr, (), BV(64, False, 0), BV(64, False, 256))
        ex.call(st, '<%s as CurveAffine>::precomp_256' % aff, [ra, pre])
        tab = ex.load(st, arr)
        bad = []
        for i in range(256):
            want = sum((1 << (32 * b)) for b in range(8) if (i >> b) & 1)
            e = z3.simplify(tab.f[i].c[0]) if z3.is_expr(tab.f[i].c[0]) else tab.f[i].c[0]
            val = e.as_long() if z3.is_expr(e) and z3.is_bv_value(e) else (e if isinstance(e, int) else None)
            if val != want:
                bad.append(i)
        chk.ground('%s.precomp_256: pre[i] = sum over set bits b of i of [2^(32b)]P, all 256 entries' % gname, not bad, 'bad entries %s' % bad[:8])
        r = ex.call(st, '<%s as CurveAffine>::mul_precomp_256::<fr::FrRepr>' % aff, [ra, kval, pre])
        chk.must_unsat('%s.mul_precomp_256(k, precomp_256(P)) = [k]P for every 256-bit k' % gname, r.c[0] != k, group='scalar-mul')
        chk.must_sat('%s: scalar-mul obligations are not vacuous (result can equal k)' % gname, r.c[0] == k)
        chk.panic_obligations(ex, gname + '.scalar-mul', start=nob)
        chk.add_executor(ex)
        chk.extra[gname + '_group_ops_plain_paths'] = D.ops


def native_differential(ctx):
    """supplementary oracle and replay target: every scalar-multiplication path of the native build on special bases -- the identity,
    the generator, a subgroup point, a curve point outside the subgroup -- and structured scalars (0, 1, single bits at word and
    32-bit-chunk boundaries, r-1, r, r+1, 2^255-1, and for the plain / table paths 2^255 and 2^256-1), against [k]P computed with the
    reference curve arithmetic.  It runs even when the symbolic part cannot encode the code."""
    import random
    from mirsym import load
    chk = ctx.chk
    rnd = random.Random(ctx.seed * 7 + 2)
    q, r = ref.Q, ref.R_ORDER
    n = load.Native('release')
    try:
        g1 = n.run(['g1_mul 1', 'g1_mul %x' % rnd.randrange(2, r), 'g2_mul 1', 'g2_mul %x' % rnd.randrange(2, r)])
        P1 = [tuple(int(t, 16) for t in g1[0].split()), tuple(int(t, 16) for t in g1[1].split())]
        f2pt = lambda o: ((int(o.split()[0], 16), int(o.split()[1], 16)), (int(o.split()[2], 16), int(o.split()[3], 16)))
        P2 = [f2pt(g1[2]), f2pt(g1[3])]
        # a curve point outside the subgroup (plain paths must still compute [k]P): the point of order 3 on E, and h2-torsion-laden point on E'
        out1 = (0, 2)
        x = (rnd.randrange(q), rnd.randrange(q))
        while ref.f2_sqrt(ref.f2_add(ref.f2_mul(ref.f2_sqr(x), x), (4, 4))) is None:
            x = (rnd.randrange(q), rnd.randrange(q))
        out2 = (x, ref.f2_sqrt(ref.f2_add(ref.f2_mul(ref.f2_sqr(x), x), (4, 4))))
        ks = [0, 1, 2, (1 << 32) - 1, 1 << 32, (1 << 64) - 1, 1 << 64, (1 << 64) + 1, 1 << 96, 1 << 128, 1 << 192, (1 << 224) + 1, r - 1, r, r + 1, (1 << 255) - 1, 1 << 255, (1 << 256) - 1,
              rnd.randrange(1 << 255)]
        if ctx.tier == 'quick':
            ks = [0, 1, (1 << 64) - 1, 1 << 64, 1 << 128, (1 << 192) + (1 << 32), r - 1, r, (1 << 255) - 1, 1 << 255, (1 << 256) - 1, rnd.randrange(1 << 255)]
        cases = []
        for k in ks:
            cases.append(('G1', 'identity', None, k, 'g1_mulpaths inf - %x' % k))
            cases.append(('G2', 'identity', None, k, 'g2_mulpaths inf - - - %x' % k))
            for nm, pt in (('generator', P1[0]), ('subgroup point', P1[1]), ('point outside the subgroup', out1)):
                cases.append(('G1', nm, pt, k, 'g1_mulpaths %x %x %x' % (pt[0], pt[1], k)))
            for nm, pt in (('generator', P2[0]), ('point outside the subgroup', out2)):
                if ctx.tier == 'quick' and nm != 'generator' and k not in (1 << 64, r, (1 << 256) - 1):
                    continue
                cases.append(('G2', nm, pt, k, 'g2_mulpaths %x %x %x %x %x' % (pt[0][0], pt[0][1], pt[1][0], pt[1][1], k)))
        outs = n.run([c[4] for c in cases])
    finally:
        n.close()
    bad = []
    for (g, nm, pt, k, cmd), o in zip(cases, outs):
        curve = ref.E1 if g == 'G1' else ref.E2
        want = curve.smul(k, pt) if pt is not None else None
        if want is None:
            wtxt = 'inf'
        elif g == 'G1':
            wtxt = '%096x %096x' % want
        else:
            wtxt = '%096x %096x %096x %096x' % (want[0][0], want[0][1], want[1][0], want[1][1])
        for part in o.split(' | '):
            path, _, val = part.partition('=')
            if path.startswith('wnaf') and k >= (1 << 255):
                continue            # wNAF paths are claimed below 2^255 only
            if val.strip() != wtxt:
                bad.append((g, path, nm, k, cmd, val.strip(), wtxt))
    # histories of one wNAF context: same base with a growing window, other base, other scalar, zero scalar after a long one
    n2 = load.Native('release')
    try:
        hist = []
        for (a_, b_, k_) in [(1, 7, (1 << 252) + 12345), (rnd.randrange(2, r), rnd.randrange(2, r), rnd.randrange(1 << 254)), (3, 3, (1 << 64) - 1)]:
            hist.append((a_, b_, k_, 'wnaf_reuse %x %x %x' % (a_, b_, k_)))
        houts = n2.run([h[3] for h in hist] + ['g1_mul %x' % (x % r) for h in hist for x in (h[0] * h[2], h[0] * h[2], h[1] * h[2], h[1] * 5, h[0] * 5, h[0] * h[2], h[1] * h[2], 0)])
    finally:
        n2.close()
    labels = ['base(P,1).scalar(k)', 'base(P,100).scalar(k) after a smaller window on the same base', 'base(Q,1).scalar(k) after a larger window', 'base(Q,1).scalar(5)',
              'scalar(5).base(P)', 'scalar(k).base(P) after a shorter scalar on the same base', 'scalar(k).base(Q)', 'scalar(0).base(Q) after a long scalar']
    for hi, (a_, b_, k_, cmd) in enumerate(hist):
        got = [x.strip() for x in houts[hi].split(' | ')]
        wants = [x.strip() for x in houts[len(hist) + 8 * hi: len(hist) + 8 * hi + 8]]
        for lab, g_, w_ in zip(labels, got, wants):
            if g_ != w_:
                bad.append(('G1', 'wnaf context reuse: ' + lab, 'P = [%#x]g' % a_, k_, cmd, g_, w_))
    chk.extra['native_differential'] = {'cases': len(cases), 'paths_per_case': 6, 'wnaf_context_histories': len(hist), 'disagreements': len(bad),
                                        'role': 'supplementary oracle / replay target (special bases x structured scalars); the deciding method is the solver run'}
    seen = set()
    for (g, path, nm, k, cmd, got, wtxt) in bad:
        key = 'scalar-mul-native:%s:%s:%s' % (g, path, nm)
        if key in seen:
            continue
        seen.add(key)
        ctx.violation(key, '%s %s of the %s by k = %#x differs from [k]P: got %s, want %s' % (g, path, nm, k, got[:40], wtxt[:40]),
                      {'cmd': cmd, 'path': path, 'base': nm, 'k': hex(k), 'got': got, 'expected': wtxt, 'profile': 'release'})


def run(ctx):
    chk = ctx.chk
    ctx.explanation = ('symbolic execution of the scalar-multiplication MIR in the exponent domain with bit-vector scalars: the result '
                       'exponent is compared with k by z3 (QF_BV) for all 2^256 scalars; wNAF recoding/evaluation by inductive steps '
                       'of the real loop bodies; context plumbing in EUF')
    only = getattr(ctx, 'only', None)
    try:
        if not only or 'plain' in only:
            part_plain(ctx)
        if not only or 'wnaf' in only:
            from . import c02_wnaf
            c02_wnaf.run_part(ctx)
    except Exception as e_:          # whatever stops the symbolic part, the native differential below still runs
        ctx.inconclusive('encoder: %s' % e_)
    if not only or 'native' in only:
        native_differential(ctx)
    chk.assumptions += ['double / add_assign / add_assign_mixed / negate / conversions of G1, G2 act as the abelian group law (C01)',
                        'FrRepr limb operations are exact 256-bit integer operations (C08 checks them bit-precisely; here their real MIR is executed)']
    chk.trusted += ['rustc MIR printer', 'mirsym', 'z3', 'leaf model of ff::BitIterator (MSB-first over limbs)']
    chk.bounds.update({'scalars': 'all 2^256 values of the four limbs (plain and table paths); c < 2^255 + 2^22 in the wNAF step',
                       'loops': '256 / 63 / 31 iterations fully executed (concrete trip counts); wNAF loops by one inductive step from an arbitrary invariant state',
                       'windows': 'wnaf_form step for every window 2..=22; wnaf_table fully for windows <= 8 and by inductive step for all'})
    chk.discharge()
    for o in chk.failed():
        o.handled = True
        ctx.violation('scalar-mul:' + o.name.split(':')[0][:60], 'scalar multiplication obligation fails: ' + o.name,
                      {'obligation': o.name, 'model': {k_: (hex(v) if isinstance(v, int) and not isinstance(v, bool) else v) for k_, v in (o.model or {}).items()},
                       'how': 'scalar limbs k0..k3 (little-endian 64-bit words) give a result different from [k]P on this path'})
    for g_ in chk.grounds:
        if not g_[1]:
            chk.ground_handled = getattr(chk, 'ground_handled', {})
            chk.ground_handled[g_[0]] = True
            ctx.violation('scalar-mul-table:' + g_[0][:30], 'table fact fails: %s (%s)' % (g_[0], g_[2]), {'fact': g_[0], 'detail': g_[2]})


def replay(ctx, path):
    run(ctx)
    return 1 if ctx.chk.violations else 0
