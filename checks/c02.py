"""C02  every scalar-multiplication path computes [k]P.

S-exp/bv: the G1 and G2 MIR of mul_assign, CurveAffine::mul (mul_bits), precomp_3 + mul_precomp_3,
precomp_256 + mul_precomp_256 is executed with the scalar's four 64-bit limbs symbolic and points as
exponents (bit-vectors) over a formal generator; result exponent == k for all 2^256 scalars.
wNAF: wnaf_form by one inductive step of the real loop body per window 2..=22 (bit-precise FrRepr code),
wnaf_table / wnaf_exp by inductive steps, Wnaf context plumbing in EUF, window recommendations in range."""
import z3
from mirsym import ref, models
from mirsym.sym import State, GE, BV, Agg, Enum, Ref, Inconclusive, LazySeq, CutReached, Frame, UNIT
from mirsym.models import deref
from . import common as C

W = 260     # width of exponent bit-vectors (scalars are 256 bits; every intermediate multiple stays below 2^258)


def frrepr(prefix):
    limbs = [z3.BitVec('%s%d' % (prefix, i), 64) for i in range(4)]
    val = Agg('fr::FrRepr', (Agg('[array]', [BV(64, False, l) for l in limbs]),))
    k = z3.Concat(limbs[3], limbs[2], limbs[1], limbs[0])
    return val, z3.ZeroExt(W - 256, k), limbs


def groups():
    return [('G1', 'ec::g1::G1', 'ec::g1::G1Affine'), ('G2', 'ec::g2::G2', 'ec::g2::G2Affine')]


def group_executor(ctx, proj, aff, extra=(), **kw):
    D = models.GroupDomain(proj, aff).setup(1, proj, aff)
    ex = C.new_executor(ctx, D.models(), extra_models=extra, **kw)
    return ex, D


def g(ty, e):
    return GE(ty, [e])


def one(ty):
    return g(ty, z3.BitVecVal(1, W))


def zero(ty):
    return g(ty, z3.BitVecVal(0, W))


def part_plain(ctx, only=None):
    chk = ctx.chk
    for gname, proj, aff in groups():
        ex, D = group_executor(ctx, proj, aff, generics_hint={'mul_assign': {'S': 'fr::FrRepr'}, 'mul': {'S': 'fr::FrRepr'},
                                                              'mul_precomp_3': {'S': 'fr::FrRepr'}, 'mul_precomp_256': {'S': 'fr::FrRepr'},
                                                              'mul_bits': {'S': 'fr::FrRepr'}})
        kval, k, limbs = frrepr('k')
        # --- projective mul_assign
        nob = len(ex.obligations)
        st = State()
        rp = ex.alloc(st, one(proj))
        ex.call(st, '<%s as CurveProjective>::mul_assign::<fr::FrRepr>' % proj, [rp, kval])
        r = ex.load(st, rp).c[0]
        chk.must_unsat('%s.mul_assign(k) = [k]P for every 256-bit k' % gname, r != k, group='scalar-mul', cap=400)
        # --- affine mul (mul_bits, mixed additions)
        st = State()
        ra = ex.alloc(st, one(aff))
        r = ex.call(st, '<%s as CurveAffine>::mul::<fr::FrRepr>' % aff, [ra, kval])
        chk.must_unsat('%s affine mul(k) = [k]P for every 256-bit k' % gname, r.c[0] != k, group='scalar-mul')
        # --- precomp_3 / mul_precomp_3
        st = State()
        ra = ex.alloc(st, one(aff))
        arr = ex.alloc(st, Agg('[array]', [zero(aff)] * 3))
        pre = Ref(arr.addr, (), BV(64, False, 0), BV(64, False, 3))
        ex.call(st, '<%s as CurveAffine>::precomp_3' % aff, [ra, pre])
        tab = ex.load(st, arr)
        for i in range(3):
            chk.must_unsat('%s.precomp_3: pre[%d] = [2^%d]P' % (gname, i, 64 * (i + 1)),
                           tab.f[i].c[0] != z3.BitVecVal(1 << (64 * (i + 1)), W), group='tables')
        r = ex.call(st, '<%s as CurveAffine>::mul_precomp_3::<fr::FrRepr>' % aff, [ra, kval, pre])
        chk.must_unsat('%s.mul_precomp_3(k, precomp_3(P)) = [k]P for every 256-bit k' % gname, r.c[0] != k, group='scalar-mul')
        # --- precomp_256 / mul_precomp_256
        st = State()
        ra = ex.alloc(st, one(aff))
        arr = ex.alloc(st, Agg('[array]', [zero(aff)] * 256))
        pre = Ref(arr.addr, (), BV(64, False, 0), BV(64, False, 256))
        ex.call(st, '<%s as CurveAffine>::precomp_256' % aff, [ra, pre])
        tab = ex.load(st, arr)
        bad = []
        for i in range(256):
            want = sum((1 << (32 * b)) for b in range(8) if (i >> b) & 1)
            e = z3.simplify(tab.f[i].c[0]) if z3.is_expr(tab.f[i].c[0]) else tab.f[i].c[0]
            val = e.as_long() if z3.is_expr(e) and z3.is_bv_value(e) else (e if isinstance(e, int) else None)
            if val != want:
                bad.append(i)
        chk.ground('%s.precomp_256: pre[i] = sum over set bits b of i of [2^(32b)]P, all 256 entries' % gname, not bad, 'bad entries %s' % bad[:8])
        r = ex.call(st, '<%s as CurveAffine>::mul_precomp_256::<fr::FrRepr>' % aff, [ra, kval, pre])
        chk.must_unsat('%s.mul_precomp_256(k, precomp_256(P)) = [k]P for every 256-bit k' % gname, r.c[0] != k, group='scalar-mul')
        chk.must_sat('%s: scalar-mul obligations are not vacuous (result can equal k)' % gname, r.c[0] == k)
        chk.panic_obligations(ex, gname + '.scalar-mul', start=nob)
        chk.add_executor(ex)
        chk.extra[gname + '_group_ops_plain_paths'] = D.ops


def run(ctx):
    chk = ctx.chk
    ctx.explanation = ('symbolic execution of the scalar-multiplication MIR in the exponent domain with bit-vector scalars: the result '
                       'exponent is compared with k by z3 (QF_BV) for all 2^256 scalars; wNAF recoding/evaluation by inductive steps '
                       'of the real loop bodies; context plumbing in EUF')
    only = getattr(ctx, 'only', None)
    if not only or 'plain' in only:
        part_plain(ctx)
    if not only or 'wnaf' in only:
        from . import c02_wnaf
        c02_wnaf.run_part(ctx)
    chk.assumptions += ['double / add_assign / add_assign_mixed / negate / conversions of G1, G2 act as the abelian group law (C01)',
                        'FrRepr limb operations are exact 256-bit integer operations (C08 checks them bit-precisely; here their real MIR is executed)']
    chk.trusted += ['rustc MIR printer', 'mirsym', 'z3', 'leaf model of ff::BitIterator (MSB-first over limbs)']
    chk.bounds.update({'scalars': 'all 2^256 values of the four limbs (plain and table paths); c < 2^255 + 2^22 in the wNAF step',
                       'loops': '256 / 63 / 31 iterations fully executed (concrete trip counts); wNAF loops by one inductive step from an arbitrary invariant state',
                       'windows': 'wnaf_form step for every window 2..=22; wnaf_table fully for windows <= 8 and by inductive step for all'})
    chk.discharge()
    for o in chk.failed():
        o.handled = True
        ctx.violation('scalar-mul:' + o.name.split(':')[0][:60], 'scalar multiplication obligation fails: ' + o.name,
                      {'obligation': o.name, 'model': {k_: (hex(v) if isinstance(v, int) and not isinstance(v, bool) else v) for k_, v in (o.model or {}).items()},
                       'how': 'scalar limbs k0..k3 (little-endian 64-bit words) give a result different from [k]P on this path'})
    for g_ in chk.grounds:
        if not g_[1]:
            chk.ground_handled = getattr(chk, 'ground_handled', {})
            chk.ground_handled[g_[0]] = True
            ctx.violation('scalar-mul-table:' + g_[0][:30], 'table fact fails: %s (%s)' % (g_[0], g_[2]), {'fact': g_[0], 'detail': g_[2]})


def replay(ctx, path):
    run(ctx)
    return 1 if ctx.chk.violations else 0
