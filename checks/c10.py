"""C10  multi-scalar multiplication returns sum [k_i]P_i for every shape of input.

S-exp/bv over the real G1/G2 MIR.  Pippenger (sum_of_products_pippinger) is decided by ONE INDUCTIVE STEP PER
WINDOW POSITION: the executor cuts at the head of the outer `loop`, starts from an arbitrary accumulator
`res` (opaque symbolic vector over formal generators e_i), buckets all identity and the position's concrete
(bit_sequence_index, num_doubles), runs the real body once (doublings, digit extraction, bucket accumulation
with symbolic indices, running-sum reduction unrolled with an unwinding obligation) and the solver shows
  res' = 2^d * res + sum_i digit_i(b) * e_i,   buckets' = identity,   next position = schedule
plus the bit-vector fact that turns this into res = sum_i (k_i >> lo) e_i.  The schedule itself is
obtained by executing the function with no points (concrete run).  For large windows the buckets are not
materialised: digit extraction, index safety and max_bucket are decided from the recorded bucket updates.
"""
import sys
import z3
from mirsym import models
from mirsym.sym import State, GE, BV, Agg, Enum, Ref, Inconclusive, LazySeq, CutReached, UNIT, PathDead
from mirsym.models import deref
from . import common as C

WS = 40      # width of exponent deltas in a step (digits < 2^20, at most 20 doublings; the old accumulator enters linearly)
sys.setrecursionlimit(100000)


def scal(prefix):
    ls = [z3.BitVec('%s_%d' % (prefix, j), 64) for j in range(4)]
    return ls


def unit(ty, n, i):
    return GE(ty, [z3.BitVecVal(1 if j == i else 0, WS) for j in range(n)])


def zeros(ty, n):
    return GE(ty, [z3.BitVecVal(0, WS)] * n)


def find_head(ex, f):
    nd = f.debug.get('num_doubles')
    if not nd:
        raise Inconclusive('pippenger: debug name num_doubles not found')
    heads = [bb for bb, (stmts, term) in f.blocks.items() if any(s.endswith('= copy ' + nd) for s in stmts) and any('Range' in s for s in stmts)]
    if len(heads) != 1:
        raise Inconclusive('pippenger: loop head not identified (%s)' % heads)
    return heads[0]


def setup_inputs(ex, st, aff, n, npts=None, nsc=None, vectors=None):
    npts = n if npts is None else npts
    nsc = n if nsc is None else nsc
    width = max(npts, nsc, 1)
    ks = [scal('k%d' % i) for i in range(nsc)]
    arrs = [ex.alloc(st, Agg('[array]', [BV(64, False, l) for l in k])) for k in ks]
    sc = ex.alloc(st, Agg('[array]', arrs))
    scref = Ref(sc.addr, (), BV(64, False, 0), BV(64, False, nsc))
    if vectors is not None:
        # linearly DEPENDENT points (mutually inverse, repeated): coefficient vectors over fewer generators than points
        pts = ex.alloc(st, Agg('[array]', [GE(aff, [z3.BitVecVal(v % (1 << WS), WS) for v in vec]) for vec in vectors[:npts]]))
        width = len(vectors[0])
    else:
        pts = ex.alloc(st, Agg('[array]', [unit(aff, width, i) for i in range(npts)]))
    ptref = Ref(pts.addr, (), BV(64, False, 0), BV(64, False, npts))
    return ks, scref, ptref, width


def schedule(ex, f, head, proj, aff, w):
    """(bit_sequence_index, num_doubles) at every arrival at the loop head: concrete run with no points"""
    sched = []

    def cut(ex_, st_, fr, k):
        b = ex_.load(st_, ex_.local_ref(fr, 'bit_sequence_index'))
        d = ex_.load(st_, ex_.local_ref(fr, 'num_doubles'))
        if not (b.concrete and d.concrete):
            raise Inconclusive('schedule not concrete')
        sched.append((b.v, d.v))
    ex.cuts = {(f.name, head): cut}
    st = State()
    ks, scref, ptref, width = setup_inputs(ex, st, aff, 0)
    ex.D.arity = 1
    ex.call_fn(st, f, [ptref, scref, BV(64, False, w)], {})
    ex.cuts = {}
    return sched


def step(ex, f, head, proj, aff, w, n, pos, nxt, chk, gname, top_bit_assumed=True, tag='', npts=None, nsc=None, optional=False, vectors=None):
    b, d = pos
    st = State()
    ks, scref, ptref, width = setup_inputs(ex, st, aff, n, npts=npts, nsc=nsc, vectors=vectors)
    nmin = min(n if npts is None else npts, n if nsc is None else nsc)
    dim = n if vectors is None else len(vectors[0])
    ex.D.arity = dim
    R = [z3.BitVec('R%d' % i, WS) for i in range(dim)]
    if top_bit_assumed:
        st.pc += [z3.Extract(63, 63, k[3]) == 0 for k in ks]
    got = {}

    def cut(ex_, st_, fr, kk):
        if kk == 1:
            ex_.store(st_, ex_.local_ref(fr, 'res'), GE(proj, R))
            ex_.store(st_, ex_.local_ref(fr, 'bit_sequence_index'), BV(64, False, b))
            ex_.store(st_, ex_.local_ref(fr, 'num_doubles'), BV(64, False, d))
        else:
            raise CutReached(st_, fr)
    ex.cuts = {(f.name, head): cut}
    nob = len(ex.obligations)
    final = None
    try:
        final = ex.call_fn(st, f, [ptref, scref, BV(64, False, w)], {})
        s2, res2, buckets2, b2, d2 = st, final, None, None, None
    except CutReached as cr:
        s2, fr = cr.st, cr.fr
        res2 = ex.load(s2, ex.local_ref(fr, 'res'))
        buckets2 = ex.load(s2, ex.local_ref(fr, 'buckets'))
        b2 = ex.load(s2, ex.local_ref(fr, 'bit_sequence_index'))
        d2 = ex.load(s2, ex.local_ref(fr, 'num_doubles'))
    ex.cuts = {}
    pc = z3.And(*[C.mk(p) for p in s2.pc]) if s2.pc else z3.BoolVal(True)
    edge = w - 1
    width_b = w if b >= edge else b + 1
    lo = b - width_b + 1
    pre = '%s pippenger(w=%d,n=%d)%s @bit %d: ' % (gname, w, n, tag, b)
    diffs = []
    digits = []
    for i in range(n):
        k = z3.Concat(ks[i][3], ks[i][2], ks[i][1], ks[i][0]) if i < len(ks) else None
        digits.append(z3.ZeroExt(WS - width_b, z3.Extract(lo + width_b - 1, lo, k)) if (i < nmin and k is not None) else z3.BitVecVal(0, WS))
    for c_ in range(dim):
        want = (R[c_] << d)
        for i in range(n):
            coef = (1 if i == c_ else 0) if vectors is None else vectors[i][c_]
            if coef:
                want = want + digits[i] * z3.BitVecVal(coef % (1 << WS), WS)      # entries beyond min(#points, #scalars) have digit 0
        diffs.append(res2.c[c_] != want)
    chk.must_unsat(pre + "res' = 2^%d res + sum_i bits[%d..%d](k_i) e_i" % (d, lo, b), z3.And(pc, z3.Or(*diffs)), group='pippenger-step', cap=(400 if chk.tier == 'quick' else 1200), optional=optional)
    if final is None:
        if nxt is None:
            chk.ground(pre + 'loop ends after the last window', False, 'loop continued to bit %r' % (b2,))
        else:
            chk.ground(pre + 'next position is (%d, %d)' % nxt, b2.concrete and d2.concrete and (b2.v, d2.v) == nxt, '%r %r' % (b2, d2))
        dirty = []
        for j, bk in enumerate(buckets2.f):
            for c in bk.c:
                if not (isinstance(c, int) and c == 0):
                    dirty.append(c != 0)
        if dirty:
            chk.must_unsat(pre + 'all buckets are the identity again', z3.And(pc, z3.Or(*dirty)), group='pippenger-step', cap=(400 if chk.tier == 'quick' else 1200), optional=optional)
    else:
        chk.ground(pre + 'loop ends after the last window', nxt is None, 'schedule expects %r' % (nxt,))
    chk.must_unsat_any(pre + 'no panic / index in range / unwinding bound sufficient', [ob.formula() for ob in ex.obligations[nob:]], cap=(400 if chk.tier == 'quick' else 1200), optional=optional)
    return pc


def window_arith(chk, w, sched):
    """res = sum (k_i >> (b+1)) e_i at the head is re-established by the step: pure bit-vector fact per position"""
    k = z3.BitVec('k', 256)
    for (b, d) in sched:
        edge = w - 1
        width_b = w if b >= edge else b + 1
        lo = b - width_b + 1
        hi_part = z3.LShR(k, b + 1) if b < 255 else z3.BitVecVal(0, 256)
        digit = z3.ZeroExt(256 - width_b, z3.Extract(lo + width_b - 1, lo, k))
        chk.must_unsat('window arithmetic w=%d bit %d: ((k >> %d) << %d) + digit = k >> %d; doublings = window width' % (w, b, b + 1, width_b, lo),
                       z3.Or((hi_part << width_b) + digit != z3.LShR(k, lo), z3.BoolVal(not (d == width_b or (b == 255 and d == 0)))),
                       group='window-arith')
    lastb, _ = sched[-1]
    edge = w - 1
    width_b = w if lastb >= edge else lastb + 1
    chk.ground('window schedule w=%d ends at bit 0 and starts at bit 255' % w, lastb - width_b + 1 == 0 and sched[0] == (255, 0), str(sched[-1]))


def positions_for(tier, sched, w):
    if tier == 'thorough' or len(sched) <= 6:
        return list(range(len(sched)))
    # quick: one position per control-flow class of the digit extraction: first window (top-bit assert), a window that
    # straddles a 64-bit word, a window ending exactly at a word boundary, a generic one, the last two (short last window)
    idx = {0, 1, len(sched) - 1, len(sched) - 2}
    seen = set()
    straddle = []
    for i, (b, d) in enumerate(sched):
        if (b & 63) < w - 1 and (b >> 6) > 0:
            straddle.append(((b & 63), i))
        cls = ('edge' if (b & 63) == w - 1 else 'top' if (b & 63) == 63 else None)
        if cls and cls not in seen:
            seen.add(cls)
            idx.add(i)
    if straddle:
        # both extremes of the split: most bits in the upper word and most bits in the lower word
        idx.add(min(straddle)[1])
        idx.add(max(straddle)[1])
    return sorted(idx)


def big_window_digits(ctx, gname, proj, aff, f, head, w, sched, idxs, n=2):
    """windows 1..=20 without materialising 2^w buckets: bucket updates are recorded, execution stops before the reduction"""
    chk = ctx.chk
    log = []
    D = models.GroupDomain(proj, aff).setup(n, proj, aff)

    def h_mixed(ex, st, m, a):
        r = a[0]
        if r.path and r.path[-1][0] == 'i':
            log.append((r.path[-1][1], list(st.pc)))
            return UNIT
        return NotImplemented

    def h_from_elem(ex, st, m, a):
        nb = a[1]
        return LazySeq(nb.v, lambda i: zeros(proj, n), 'identity buckets')

    def h_stop(ex, st, m, a):
        raise CutReached(st, None, 'before-reduction')
    pp = proj.replace('::', r'::')
    ex = C.new_executor(ctx, D.models(), extra_models=[(r'<' + pp + r' as CurveProjective>::add_assign_mixed', h_mixed),
                                                        (r'(std::vec::|alloc::vec::)?from_elem::<.+>', h_from_elem),
                                                        (r'<' + pp + r' as CurveProjective>::add_assign', h_stop)])
    ex.D = D
    for pi in idxs:
        b, d = sched[pi]
        del log[:]
        st = State()
        ks, scref, ptref, width = setup_inputs(ex, st, aff, n)
        st.pc += [z3.Extract(63, 63, k[3]) == 0 for k in ks]
        state = {}

        def cut(ex_, st_, fr, kk):
            if kk == 1:
                ex_.store(st_, ex_.local_ref(fr, 'bit_sequence_index'), BV(64, False, b))
                ex_.store(st_, ex_.local_ref(fr, 'num_doubles'), BV(64, False, 0))
                state['fr'] = fr
        ex.cuts = {(f.name, head): cut}
        nob = len(ex.obligations)
        try:
            ex.call_fn(st, f, [ptref, scref, BV(64, False, w)], {})
            raise Inconclusive('big-window run did not reach the reduction')
        except CutReached as cr:
            s2 = cr.st
        ex.cuts = {}
        fr = state['fr']
        mb = ex.load(s2, ex.local_ref(fr, 'max_bucket'))
        pc = z3.And(*[C.mk(p) for p in s2.pc]) if s2.pc else z3.BoolVal(True)
        edge = w - 1
        width_b = w if b >= edge else b + 1
        lo = b - width_b + 1
        pre = '%s pippenger digits(w=%d) @bit %d: ' % (gname, w, b)
        digs = []
        for i in range(n):
            k = z3.Concat(ks[i][3], ks[i][2], ks[i][1], ks[i][0])
            digs.append(z3.ZeroExt(64 - width_b, z3.Extract(lo + width_b - 1, lo, k)))
        # each recorded update i: happens iff digit_i > 0 and targets bucket digit_i
        if len(log) != n:
            chk.shape(pre + 'one conditional bucket update per component', False, '%d updates recorded' % len(log))
            continue
        bad = []
        for i, (idx, pcs) in enumerate(log):
            cond = z3.And(*[C.mk(p) for p in pcs]) if pcs else z3.BoolVal(True)
            bad.append(z3.And(cond, z3.Or(idx.z() != digs[i], z3.UGE(idx.z(), z3.BitVecVal(1 << w, 64)), digs[i] == 0)))
            bad.append(z3.And(z3.Extract(63, 63, ks[0][3]) == 0, z3.Extract(63, 63, ks[1][3]) == 0 if n > 1 else z3.BoolVal(True),
                              digs[i] != 0, z3.Not(cond)))
        chk.must_unsat(pre + 'bucket index = bits[%d..%d](k_i), < 2^w, update iff digit != 0' % (lo, b), z3.Or(*bad), group='digit-extraction')
        mx = digs[0]
        for dg in digs[1:]:
            mx = z3.If(z3.UGT(dg, mx), dg, mx)
        chk.must_unsat(pre + 'max_bucket = max_i digit_i', z3.And(pc, mb.z() != mx), group='digit-extraction')
        chk.must_unsat_any(pre + 'no panic / shift in range', [ob.formula() for ob in ex.obligations[nob:]])
    chk.add_executor(ex)


def big_window_digits_anypos(ctx, gname, proj, aff, f, head, w, n=2):
    """as big_window_digits, but the bit position is SYMBOLIC (any 0..=255, a superset of the schedule positions): one run per window
    decides the digit extraction of every position and every control-flow class (aligned, word-straddling, bottom word) at once"""
    chk = ctx.chk
    log = []
    D = models.GroupDomain(proj, aff).setup(n, proj, aff)

    def h_mixed(ex, st, m, a):
        r = a[0]
        if r.path and r.path[-1][0] == 'i':
            comp = a[1].path[-1][1] if isinstance(a[1], Ref) and a[1].path and a[1].path[-1][0] == 'i' else None
            comp = comp.v if isinstance(comp, BV) and comp.concrete else comp
            log.append((r.path[-1][1], list(st.pc), comp))
            return UNIT
        return NotImplemented

    def h_from_elem(ex, st, m, a):
        nb = a[1]
        return LazySeq(nb.v, lambda i: zeros(proj, n), 'identity buckets')

    def h_stop(ex, st, m, a):
        raise CutReached(st, None, 'before-reduction')
    pp = proj.replace('::', r'::')
    ex = C.new_executor(ctx, D.models(), extra_models=[(r'<' + pp + r' as CurveProjective>::add_assign_mixed', h_mixed),
                                                        (r'(std::vec::|alloc::vec::)?from_elem::<.+>', h_from_elem),
                                                        (r'<' + pp + r' as CurveProjective>::add_assign', h_stop)])
    ex.D = D
    bsym = z3.BitVec('bitpos', 64)
    for _once in (0,):
        del log[:]
        st = State()
        ks, scref, ptref, width = setup_inputs(ex, st, aff, n)
        st.pc += [z3.Extract(63, 63, k[3]) == 0 for k in ks]
        st.pc.append(z3.ULE(bsym, z3.BitVecVal(255, 64)))
        state = {}

        def cut(ex_, st_, fr, kk):
            if kk == 1:
                ex_.store(st_, ex_.local_ref(fr, 'bit_sequence_index'), BV(64, False, bsym))
                ex_.store(st_, ex_.local_ref(fr, 'num_doubles'), BV(64, False, 0))
                state['fr'] = fr
        ex.cuts = {(f.name, head): cut}
        nob = len(ex.obligations)
        try:
            ex.call_fn(st, f, [ptref, scref, BV(64, False, w)], {})
            raise Inconclusive('big-window run did not reach the reduction')
        except CutReached as cr:
            s2 = cr.st
        ex.cuts = {}
        fr = state['fr']
        mb = ex.load(s2, ex.local_ref(fr, 'max_bucket'))
        pc = z3.And(*[C.mk(p) for p in s2.pc]) if s2.pc else z3.BoolVal(True)
        edge = z3.BitVecVal(w - 1, 64)
        width_b = z3.If(z3.UGE(bsym, edge), z3.BitVecVal(w, 64), bsym + 1)
        lo = bsym - width_b + 1
        pre = '%s pippenger digits(w=%d) @ANY bit position: ' % (gname, w)
        digs = []
        for i in range(n):
            k = z3.Concat(ks[i][3], ks[i][2], ks[i][1], ks[i][0])
            sh = z3.LShR(k, z3.ZeroExt(192, lo))
            msk = (z3.BitVecVal(1, 256) << z3.ZeroExt(192, width_b)) - 1
            digs.append(z3.Extract(63, 0, sh & msk))
        # each recorded update i: happens iff digit_i > 0 and targets bucket digit_i
        if any(not isinstance(c, int) or not (0 <= c < n) for (_, _, c) in log) or set(c for (_, _, c) in log) != set(range(n)):
            chk.shape(pre + 'every bucket update names its component', False, 'components %r' % [c for (_, _, c) in log])
            continue
        chk.shape(pre + 'bucket updates recorded per control-flow branch and component', True, '%d updates over %d components' % (len(log), n))
        top = z3.And(*[z3.Extract(63, 63, k[3]) == 0 for k in ks], z3.ULE(bsym, z3.BitVecVal(255, 64)))
        bad = []
        for i in range(n):
            conds = []
            for (idx, pcs, comp) in log:
                if comp != i:
                    continue
                cond = z3.And(*[C.mk(p) for p in pcs]) if pcs else z3.BoolVal(True)
                conds.append(cond)
                # soundness of every update: right bucket, in range, never bucket 0
                bad.append(z3.And(cond, z3.Or(idx.z() != digs[i], z3.UGE(idx.z(), z3.BitVecVal(1 << w, 64)), digs[i] == 0)))
            # completeness: a non-zero digit is added to its bucket on some branch
            bad.append(z3.And(top, digs[i] != 0, z3.Not(z3.Or(*conds))))
        chk.must_unsat(pre + 'bucket index = bits[pos-width+1..pos](k_i), < 2^w, update iff digit != 0', z3.Or(*bad), group='digit-extraction')
        mx = digs[0]
        for dg in digs[1:]:
            mx = z3.If(z3.UGT(dg, mx), dg, mx)
        chk.must_unsat(pre + 'max_bucket = max_i digit_i', z3.And(pc, mb.z() != mx), group='digit-extraction')
        chk.must_unsat_any(pre + 'no panic / shift in range', [ob.formula() for ob in ex.obligations[nob:]])
    chk.add_executor(ex)


def pippenger(ctx):
    chk = ctx.chk
    tier = ctx.tier
    # thorough = the quick plan with one more point per window and windows 5..8 as ladder rungs, at the class positions (wider sweeps --
    # every position, then strides 4 / 8 / 16 -- never came to an end within 5, 3, 3, 1.2 and 0.6 hours on this machine; see DESIGN 11)
    plan = [(1, 2), (2, 3), (3, 2), (4, 2)] if tier == 'quick' else [(1, 3), (2, 3), (3, 3), (4, 2), (5, 2), (6, 2), (7, 2), (8, 2)]
    for gname, proj, aff in ([('G1', 'ec::g1::G1', 'ec::g1::G1Affine')] + ([('G2', 'ec::g2::G2', 'ec::g2::G2Affine')])):
        D = models.GroupDomain(proj, aff).setup(1, proj, aff)
        ex = C.new_executor(ctx, D.models())
        ex.D = D
        f = [x for x in ex.fns_named('sum_of_products_pippinger') if x.name.startswith('ec::%s::' % gname.lower())]
        if len(f) != 1:
            raise Inconclusive('sum_of_products_pippinger body for %s not found' % gname)
        f = f[0]
        head = find_head(ex, f)
        scheds = {}
        for w in range(1, 21):
            scheds[w] = schedule(ex, f, head, proj, aff, w)
            if gname == 'G1':
                window_arith(chk, w, scheds[w])
        # digit extraction with a SYMBOLIC bit position: every window 1..=20, every position, both tiers
        for w in range(1, 21):
            big_window_digits_anypos(ctx, gname, proj, aff, f, head, w)
        if ctx.only and 'anypos' in ctx.only and 'pip' not in ctx.only:
            continue
        myplan = plan if gname == 'G1' else ([(3, 2)] if tier == 'quick' else [(2, 2), (3, 2), (4, 2)])
        for (w, n) in myplan:
            sched = scheds[w]
            ex.unroll_limit = max((1 << w) + 3, 40)
            # thorough: one position per control-flow class plus every 16th (windows 1, 2) resp. every 8th (windows 3, 4) position; classes only
            # above (sweeps over every position up to window 8, up to 4 and up to 2 were tried: no end after 5, 3 and 3 hours on this machine)
            pos_ = positions_for('quick', sched, w)
            for pi in pos_:
                nxt = sched[pi + 1] if pi + 1 < len(sched) else None
                step(ex, f, head, proj, aff, w, n, sched[pi], nxt, chk, gname, optional=(w >= 5))       # windows 7, 8: ladder rungs (memory / time permitting)
        # mismatched list lengths inside the bucket method (every digit-extraction branch): only the first min entries count, no panic
        if gname == 'G1':
            wm = 3
            sched = scheds[wm]
            ex.unroll_limit = max((1 << wm) + 3, 40)
            for (npts_, nsc_) in [(1, 2), (2, 1)]:
                for pi in positions_for('quick', sched, wm):
                    nxt = sched[pi + 1] if pi + 1 < len(sched) else None
                    step(ex, f, head, proj, aff, wm, 2, sched[pi], nxt, chk, gname, tag=' with %d points / %d scalars' % (npts_, nsc_), npts=npts_, nsc=nsc_)
        # linearly dependent points: P and -P (and P, P, -2P) -- the running sums of the reduction can pass through the identity, which
        # independent generators never do; a branch on `is_zero` of an intermediate sum is only reachable here
        if gname == 'G1':
            for (wd, vecs) in [(2, [[1], [-1]]), (3, [[1], [1], [-2]])]:
                sched = scheds[wd]
                ex.unroll_limit = max((1 << wd) + 3, 40)
                for pi in positions_for('quick', sched, wd)[:4]:
                    nxt = sched[pi + 1] if pi + 1 < len(sched) else None
                    step(ex, f, head, proj, aff, wd, len(vecs), sched[pi], nxt, chk, gname, tag=' with dependent points %s' % vecs, vectors=vecs)
        ex.unroll_limit = 600
        # precondition: top bit of every scalar clear -- the assert fires without it (first window only)
        nob = len(ex.obligations)
        st = State()
        ks, scref, ptref, width = setup_inputs(ex, st, aff, 1)
        D.arity = 1
        try:
            ex.call_fn(st, f, [ptref, scref, BV(64, False, 4)], {})
        except Exception:
            pass
        asserts = [o for o in ex.obligations[nob:] if 'assertion failed: bit_sequence_index != 255' in o.msg]
        ex.harvested = len(ex.obligations)      # this run was made WITHOUT the precondition on purpose
        if asserts:
            chk.must_sat('%s pippenger: top-bit assert! is reachable when bit 255 of a scalar is set' % gname, asserts[0].formula(), group='precondition')
        else:
            chk.ground('%s pippenger: top-bit assert present on the first window' % gname, False, 'no such assert encountered')
        chk.add_executor(ex)
        chk.extra[gname + '_schedule_lengths'] = {str(w): len(s) for w, s in scheds.items()}
        # large windows: digit extraction and index safety for every window 1..=20
        if gname == 'G1':
            for w in ([] if tier == 'quick' else [1, 2, 3, 5, 8, 11, 13, 16, 20]):       # concrete positions: thorough only (the symbolic-position run above subsumes them)
                sched = scheds[w]
                big_window_digits(ctx, gname, proj, aff, f, head, w, sched, positions_for('quick', sched, w))


def entry_points(ctx):
    """sum_of_products (min length, heuristic window), find_pippinger_window for every n, mismatched lengths"""
    chk = ctx.chk
    for gname, proj, aff in [('G1', 'ec::g1::G1', 'ec::g1::G1Affine'), ('G2', 'ec::g2::G2', 'ec::g2::G2Affine')]:
        calls = []

        def h_pip(ex, st, m, a):
            calls.append(a)
            return GE(proj, [z3.BitVecVal(0, WS)])
        D = models.GroupDomain(proj, aff).setup(1, proj, aff)
        pa = aff.replace('::', r'::')
        ex = C.new_executor(ctx, D.models(), extra_models=[(r'<' + pa + r' as CurveAffine>::sum_of_products_pippinger', h_pip)])
        ex.D = D
        nsym = z3.BitVec('n', 64)
        st = State()
        nob = len(ex.obligations)
        wv = ex.call(st, '<%s as CurveAffine>::find_pippinger_window' % aff, [BV(64, False, nsym)])
        table = [(1, 1), (3, 2), (8, 3), (20, 4), (47, 5), (126, 6), (260, 7), (826, 9), (1501, 10), (4555, 11), (84071, 16)]
        # read the boundary table from the code itself for the monotonic / range claims; the independent expectations are
        # range 1..=16 and monotonicity (the documented property), not the particular break points
        chk.must_unsat('%s.find_pippinger_window(n) in 1..=16 for every usize n' % gname, z3.Or(z3.ULT(wv.z(), 1), z3.UGT(wv.z(), 16)), group='window-heuristic')
        n2 = z3.BitVec('n2', 64)
        st2 = State()
        wv2 = ex.call(st2, '<%s as CurveAffine>::find_pippinger_window' % aff, [BV(64, False, n2)])
        chk.must_unsat('%s.find_pippinger_window is monotone in n' % gname, z3.And(z3.ULE(nsym, n2), z3.UGT(wv.z(), wv2.z())), group='window-heuristic')
        chk.must_unsat('%s.find_pippinger_window(0) = find_pippinger_window(1) = 1' % gname, z3.And(z3.ULE(nsym, 1), wv.z() != 1), group='window-heuristic')
        chk.panic_obligations(ex, gname + '.find_pippinger_window', start=nob)
        # sum_of_products: passes (points, scalars, find_pippinger_window(min(len))) for every pair of lengths 0..3
        ok = True
        detail = ''
        for npts in range(4):
            for nsc in range(4):
                del calls[:]
                st = State()
                ks, scref, ptref, width = setup_inputs(ex, st, aff, max(npts, nsc), npts=npts, nsc=nsc)
                ex.call(st, '<%s as CurveAffine>::sum_of_products' % aff, [ptref, scref])
                st3 = State()
                wexp = ex.call(st3, '<%s as CurveAffine>::find_pippinger_window' % aff, [BV(64, False, min(npts, nsc))])
                if not (len(calls) == 1 and calls[0][0].key() == ptref.key() and calls[0][1].key() == scref.key()
                        and isinstance(calls[0][2], BV) and calls[0][2].concrete and calls[0][2].v == wexp.v):
                    ok = False
                    detail = 'lengths (%d,%d): %r' % (npts, nsc, calls)
        chk.ground('%s.sum_of_products delegates to the bucket method with window(min(#points,#scalars)), all length pairs 0..3' % gname, ok, detail)
        chk.add_executor(ex)
    # mismatched lengths inside the bucket method: only the first min(len) entries are used
    gname, proj, aff = 'G1', 'ec::g1::G1', 'ec::g1::G1Affine'
    D = models.GroupDomain(proj, aff).setup(3, proj, aff)
    ex = C.new_executor(ctx, D.models())
    ex.D = D
    f = [x for x in ex.fns_named('sum_of_products_pippinger') if x.name.startswith('ec::g1::')][0]
    for (npts, nsc) in [(3, 1), (1, 3), (0, 2), (2, 0)]:
        st = State()
        ks, scref, ptref, width = setup_inputs(ex, st, aff, 3, npts=npts, nsc=nsc)
        D.arity = width
        st.pc += [z3.Extract(63, 63, k[3]) == 0 for k in ks]
        nob = len(ex.obligations)
        # window 1 keeps the whole run cheap; one full run (256 windows) with symbolic scalars
        ex.unroll_limit = 3000
        ex.prune = True
        r = ex.call_fn(st, f, [ptref, scref, BV(64, False, 1)], {})
        ex.prune = False
        m = min(npts, nsc)
        pc = z3.And(*[C.mk(p) for p in st.pc]) if st.pc else z3.BoolVal(True)
        diffs = []
        for i in range(width):
            if i < m:
                continue
            diffs.append(r.c[i] != 0)
        if diffs:
            chk.must_unsat('G1 pippenger(w=1) with %d points / %d scalars ignores entries beyond min' % (npts, nsc), z3.And(pc, z3.Or(*diffs)),
                           group='mismatched-lengths', cap=300)
        chk.must_unsat_any('G1 pippenger lengths (%d,%d): no panic' % (npts, nsc), [ob.formula() for ob in ex.obligations[nob:]])
    ex.unroll_limit = 600
    chk.add_executor(ex)


def precomp_variant(ctx):
    """sum_of_products_precomp_256 with tables from the library's precomp_256: all 256-bit scalars, n <= 2"""
    chk = ctx.chk
    W = 264
    for gname, proj, aff in [('G1', 'ec::g1::G1', 'ec::g1::G1Affine'), ('G2', 'ec::g2::G2', 'ec::g2::G2Affine')]:
        for n in ([1, 2] if gname == 'G1' else [2]):
            D = models.GroupDomain(proj, aff).setup(n, proj, aff)
            ex = C.new_executor(ctx, D.models())
            st = State()
            ks = [scal('k%d' % i) for i in range(n)]
            arrs = [ex.alloc(st, Agg('[array]', [BV(64, False, l) for l in k])) for k in ks]
            sc = ex.alloc(st, Agg('[array]', arrs))
            scref = Ref(sc.addr, (), BV(64, False, 0), BV(64, False, n))

            def u(i):
                return GE(aff, [z3.BitVecVal(1 if j == i else 0, W) for j in range(n)])
            pts = ex.alloc(st, Agg('[array]', [u(i) for i in range(n)]))
            ptref = Ref(pts.addr, (), BV(64, False, 0), BV(64, False, n))
            pre = ex.alloc(st, Agg('[array]', [GE(aff, [z3.BitVecVal(0, W)] * n)] * (256 * n)))
            for i in range(n):
                pi = ex.alloc(st, u(i))
                ex.call(st, '<%s as CurveAffine>::precomp_256' % aff, [pi, Ref(pre.addr, (), BV(64, False, 256 * i), BV(64, False, 256))])
            preref = Ref(pre.addr, (), BV(64, False, 0), BV(64, False, 256 * n))
            nob = len(ex.obligations)
            r = ex.call(st, '<%s as CurveAffine>::sum_of_products_precomp_256' % aff, [ptref, scref, preref])
            diffs = []
            for i in range(n):
                k = z3.ZeroExt(W - 256, z3.Concat(ks[i][3], ks[i][2], ks[i][1], ks[i][0]))
                diffs.append(r.c[i] != k)
            chk.must_unsat('%s.sum_of_products_precomp_256 (n=%d, tables from precomp_256) = sum [k_i]P_i for all 256-bit scalars' % (gname, n),
                           z3.Or(*diffs), group='msm-precomp', cap=400)
            chk.panic_obligations(ex, '%s precomp_256 msm n=%d' % (gname, n), start=nob)
            chk.add_executor(ex)


def native_differential(ctx):
    """supplementary oracle and replay target: the native multi-scalar multiplications (bucket method with every window 1..=20, default
    entry point, table-driven variant) on point multisets with identities, duplicates and mutually inverse points, structured scalars
    and mismatched list lengths, against sum [k_i]P_i from the reference curve arithmetic; the window heuristic for n around every
    table boundary must stay within 1..=16."""
    import random
    from mirsym import load, ref
    chk = ctx.chk
    rnd = random.Random(ctx.seed * 13 + 5)
    q, r = ref.Q, ref.R_ORDER
    n = load.Native('release')
    try:
        gs = n.run(['g1_mul %x' % k for k in (1, 2, 3, 5, rnd.randrange(2, r))])
        P = [tuple(int(t, 16) for t in o.split()) for o in gs]
        neg = lambda pt: (pt[0], (-pt[1]) % q)
        INF = None
        def fmt(pt):
            return 'inf -' if pt is None else '%x %x' % pt
        big = (1 << 255) - 1
        sets = [
            ('empty', [], []),
            ('one point', [P[0]], [rnd.randrange(1 << 255)]),
            ('identity point', [INF, P[1]], [rnd.randrange(1 << 255), rnd.randrange(1 << 255)]),
            ('identity only', [INF], [big]),
            ('duplicate points', [P[2], P[2], P[2]], [big, 1 << 64, (1 << 128) + 1]),
            ('mutually inverse points, equal scalars', [P[3], neg(P[3])], [0x1234567890abcdef0123, 0x1234567890abcdef0123]),
            ('mutually inverse points', [P[4], neg(P[4]), P[0]], [rnd.randrange(1 << 255), rnd.randrange(1 << 255), (1 << 63)]),
            ('mutually inverse points whose running sum passes through the identity', [P[3], neg(P[3])], [10, 4]),
            ('P, P, -2P with small scalars', [P[0], P[0], neg(P[1])], [10, 10, 4]),
            ('zero scalars', [P[0], P[1]], [0, 0]),
            ('single bits at word boundaries', [P[0], P[1], P[2], P[3]], [1 << 63, 1 << 64, 1 << 127, 1 << 192]),
            ('all-ones', [P[1], P[4]], [big, big]),
            ('more scalars than points', [P[0], P[1]], [3, 5, 7]),
            ('more points than scalars', [P[0], P[1], P[2]], [big, 9]),
            ('random', [P[i] for i in range(5)], [rnd.randrange(1 << 255) for _ in range(5)]),
        ]
        modes = ['w%d' % w for w in range(1, 21)] + ['default', 'p256']
        if ctx.tier == 'quick':
            modes = ['w1', 'w2', 'w3', 'w5', 'w8', 'w11', 'w13', 'w16', 'w20', 'default', 'p256']
        cases = []
        for nm, pts, ks in sets:
            m_ = min(len(pts), len(ks))
            want = None
            for pt, k in list(zip(pts, ks))[:m_]:
                if pt is not None:
                    want = ref.E1.padd(want, ref.E1.smul(k, pt))
            wtxt = 'inf' if want is None else '%096x %096x' % want
            for mode in modes:
                if mode == 'p256' and len(pts) != len(ks):
                    continue        # the table-driven variant is claimed for matching tables only
                cases.append((nm, mode, 'g1_msm %s %d %d %s %s' % (mode, len(pts), len(ks), ' '.join(fmt(pt) for pt in pts), ' '.join('%x' % k for k in ks)), wtxt))
        outs = n.run([c[2] for c in cases])
        ns = sorted(set([0, 1, 2, 3, 4, 5] + [b + d for b in (8, 16, 32, 64, 100, 128, 256, 512, 1000, 1024, 4096, 10000, 65536, 100000, 1 << 20, 1 << 24, 1 << 32, 1 << 40) for d in (-1, 0, 1)]))
        wins = n.run(['g1_window %d' % v for v in ns])
    finally:
        n.close()
    seen = set()
    nbad = 0
    for (nm, mode, cmd, wtxt), o in zip(cases, outs):
        if o.strip() != wtxt:
            nbad += 1
            key = 'msm-native:%s:%s' % ('pippenger' if mode.startswith('w') else mode, nm)
            if key not in seen:
                seen.add(key)
                ctx.violation(key, 'native multi-scalar multiplication (%s) on "%s" differs from sum [k_i]P_i: got %s, want %s' % (mode, nm, o.strip()[:40], wtxt[:40]),
                              {'cmd': cmd, 'mode': mode, 'input_class': nm, 'got': o.strip(), 'expected': wtxt, 'profile': 'release'})
    badw = [(v, o) for v, o in zip(ns, wins) if not all(1 <= int(t) <= 16 for t in o.split()[:1])]
    for v, o in badw[:2]:
        ctx.violation('msm-native:window:%d' % v, 'find_pippinger_window(%d) = %s is outside 1..=16' % (v, o), {'cmd': 'g1_window %d' % v, 'got': o})
    chk.extra['native_differential'] = {'msm_cases': len(cases), 'disagreements': nbad, 'window_heuristic_points': len(ns), 'window_out_of_range': len(badw),
                                        'role': 'supplementary oracle / replay target; the deciding method is the solver run'}


def run(ctx):
    chk = ctx.chk
    ctx.explanation = ('Pippenger by one inductive step per window position from an arbitrary invariant state (cut point at the outer loop '
                       'head of the real MIR), bucket indices symbolic, running-sum reduction unrolled with an unwinding obligation; '
                       'digit extraction / index safety for windows 1..=20 from recorded bucket updates; entry points and the table '
                       'variant executed whole; all decided by z3 (QF_BV)')
    only = getattr(ctx, 'only', None)
    try:
        if not only or 'entry' in only:
            entry_points(ctx)
        if not only or 'precomp' in only:
            precomp_variant(ctx)
        if not only or 'pip' in only or 'anypos' in only:
            pippenger(ctx)
    except Exception as e_:          # whatever stops the symbolic part, the native differential below still runs
        ctx.inconclusive('encoder: %s' % e_)
    if not only or 'native' in only:
        native_differential(ctx)
    chk.bounds.update({'bucket method (full step incl. reduction)': 'quick: windows 1..6 with n = 2 or 3 points at the first/last/word-straddling positions; '
                       'thorough: windows 1..8 (n<=3 for w<=4, n=2 above), one position per control-flow class; windows 5..8 are ladder rungs',
                       'digit extraction + index safety': 'every window 1..=20 with a SYMBOLIC bit position 0..=255 (both tiers); thorough repeats it at one concrete position per control-flow class of every window',
                       'scalars': 'all values of the 4x64 limb bits with bit 255 clear', 'outside': 'bucket reduction for windows 9..=20 and n > 3'})
    chk.assumptions += ['curve operations act as an abelian group on exponent vectors over formal generators (C01); repeated / inverse / identity points are '
                        'linear substitutions into the proved linear form', 'induction over window positions: invariant res = sum_i (k_i >> (b+1)) e_i, buckets = O']
    chk.trusted += ['rustc MIR printer', 'mirsym', 'z3']
    chk.discharge()
    for o in chk.failed():
        o.handled = True
        ctx.violation('msm:' + o.name.split(':')[0][:70], 'multi-scalar multiplication obligation fails: ' + o.name,
                      {'obligation': o.name, 'model': {k_: (hex(v) if isinstance(v, int) and not isinstance(v, bool) else v) for k_, v in (o.model or {}).items()},
                       'how': 'scalars k<i>_<j> are 64-bit limbs (j = 0 least significant); R<i> is the accumulator coefficient before the step'})
    for g_ in chk.grounds:
        if not g_[1]:
            chk.ground_handled = getattr(chk, 'ground_handled', {})
            chk.ground_handled[g_[0]] = True
            ctx.violation('msm-structure:' + g_[0][:50], 'structural fact fails: %s (%s)' % (g_[0], g_[2]), {'fact': g_[0], 'detail': g_[2]})


def replay(ctx, path):
    run(ctx)
    return 1 if ctx.chk.violations else 0
