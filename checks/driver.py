"""./check <ID> [--tier quick|thorough] [--replay <path>]

exit 0: property held on everything explored (KNOWN-FINDING lines possible)
exit 1: a violation that reproduces against the real code:  VIOLATION property=<id> replay=<path>
exit 2: inconclusive (solver timeout, encoder gap, counterexample that does not replay) -- never a pass
"""
import sys, os, json, time, importlib, traceback, shutil, tempfile, argparse, atexit, signal

HERE = os.path.dirname(os.path.abspath(__file__))
VERIF = os.path.dirname(HERE)
sys.path.insert(0, VERIF)

from mirsym import harness, load  # noqa: E402
from mirsym.sym import Inconclusive  # noqa: E402


class Ctx:
    def __init__(self, pid, tier, seed):
        self.pid, self.tier, self.seed = pid, tier, seed
        self.chk = harness.Check(pid, tier, seed)
        root = os.environ.get('VERIF_SCRATCH') or '/var/tmp/verif-scratch'
        os.makedirs(root, exist_ok=True)
        self.scratch = tempfile.mkdtemp(prefix='%s-%d-' % (pid, os.getpid()), dir=root)
        os.environ['VERIF_SCRATCH'] = root
        self._mir = None
        self.level = 'other'
        self.explanation = ''
        self.repo = os.environ.get('VERIF_REPO', '/repo')
        self._repo_copy = None
        self.findings = load_findings()
        self.reported = []
        self._vkeys = set()

    def cleanup(self):
        shutil.rmtree(self.scratch, ignore_errors=True)

    def mir(self):
        if self._mir is None:
            p = os.environ.get('VERIF_MIR_FILE')      # debugging aid only; never set by registered commands
            if p:
                self._mir = load.load(p)
            else:
                text, info = load.dump_mir(workdir=os.path.join(self.scratch, 'mirdump'))
                shutil.rmtree(os.path.join(self.scratch, 'mirdump'), ignore_errors=True)
                from mirsym import mir as _m
                fns, consts = _m.parse_mir(text)
                info['functions'] = sum(len(v) for v in fns.values())
                info['consts'] = len(consts)
                self._mir = (fns, consts, info)
            self.chk.mir_info = self._mir[2]
        return self._mir

    def repo_copy(self):
        """scratch copy of /repo's working tree (for Kani / native replay builds)"""
        if self._repo_copy is None:
            d = os.path.join(self.scratch, 'repo')
            load.copy_repo(d)
            self._repo_copy = d
        return self._repo_copy

    # ---- outcome reporting
    def violation(self, key, what, replay_obj):
        """a violation confirmed against the real code. key identifies the failing input/call site."""
        for f in self.findings:
            if f.get('status') == 'known' and f.get('property') == self.pid and f.get('key') == key:
                line = 'KNOWN-FINDING: property=%s %s' % (self.pid, f.get('what', what))
                if line not in self.reported:
                    print(line)
                    self.reported.append(line)
                    self.chk.known.append(line)
                return
        if key in self._vkeys:
            return
        self._vkeys.add(key)
        os.makedirs(os.path.join(VERIF, 'replays'), exist_ok=True)
        path = os.path.join(VERIF, 'replays', '%s-%s.json' % (self.pid, ''.join(c if c.isalnum() else '_' for c in key)[:60]))
        replay_obj = dict(replay_obj, property=self.pid, key=key, what=what)
        with open(path, 'w') as fh:
            json.dump(replay_obj, fh, indent=1, default=str)
        self.chk.violations.append((what, path))
        print('VIOLATION property=%s replay=%s' % (self.pid, path))
        print('  ' + what)

    def inconclusive(self, why):
        self.chk.inconclusive.append(why)
        print('INCONCLUSIVE: ' + why)


def load_findings():
    p = os.path.join(VERIF, 'known_findings.json')
    if os.path.exists(p):
        return json.load(open(p)).get('findings', [])
    return []


def main():
    ap = argparse.ArgumentParser()
    ap.add_argument('pid')
    ap.add_argument('--tier', default=os.environ.get('VERIF_TIER', 'quick'), choices=['quick', 'thorough'])
    ap.add_argument('--replay', default=None)
    ap.add_argument('--only', default=None, help='debug: run only the named sub-check(s), comma separated')
    a = ap.parse_args()
    pid = a.pid.upper()
    seed = int(os.environ.get('VERIF_SEED', '0') or 0)
    ctx = Ctx(pid, a.tier, seed)
    ctx.only = set(a.only.split(',')) if a.only else None
    atexit.register(ctx.cleanup)
    signal.signal(signal.SIGTERM, lambda *x: sys.exit(2))
    try:
        mod = importlib.import_module('checks.' + pid.lower())
    except ModuleNotFoundError:
        print('no check for ' + pid)
        sys.exit(2)
    rc = 0
    try:
        if a.replay:
            rc = mod.replay(ctx, a.replay)
            sys.exit(rc)
        mod.run(ctx)
    except Inconclusive as e:
        ctx.inconclusive('encoder: ' + str(e))
        traceback.print_exc()
    except SystemExit:
        raise
    except Exception as e:
        ctx.inconclusive('internal error: %r' % (e,))
        traceback.print_exc()
    chk = ctx.chk
    # panic / bounds / unwinding obligations recorded by an executor but not yet turned into queries (the check was
    # interrupted, e.g. because every path of a run ended in a panic): decide them now -- a reachable panic under the
    # stated preconditions is a violation in its own right
    try:
        from mirsym import sym as _sym
        import z3 as _z3
        pending = []
        for ex in _sym.ALL_EXECUTORS:
            for ob in ex.obligations[ex.harvested:]:
                pending.append(ob)
            chk.functions.update(ex.encoded)
            ex.harvested = len(ex.obligations)
        for i, ob in enumerate(pending[:400]):
            chk.must_unsat('unharvested %s #%d at %s: %s' % (ob.kind, i, ob.where, ob.msg[:80]), ob.formula(), group='late-no-panic')
        if pending:
            chk.discharge()
            for o in chk.failed():
                if o.group == 'late-no-panic' and not o.handled:
                    o.handled = True
                    ctx.violation('panic:' + o.name.split(' at ')[-1][:80], 'a panic / out-of-range access is reachable under the stated preconditions: ' + o.name,
                                  {'obligation': o.name, 'model': {k_: (hex(v) if isinstance(v, int) and not isinstance(v, bool) else v) for k_, v in (o.model or {}).items()}})
            if chk.violations:
                # the interruption is explained by the violation
                chk.inconclusive[:] = [x for x in chk.inconclusive if 'PathDead' not in x]
    except Exception:
        traceback.print_exc()
    # anything left undecided or unexplained is inconclusive
    for o in chk.undecided():
        ctx.inconclusive('solver gave %s for %s (cap %ds)' % (o.result, o.name, chk.cap))
    for o in chk.failed():
        if not getattr(o, 'handled', False):
            ctx.inconclusive('obligation %s: expected %s, solver says %s (no replay handler)' % (o.name, o.expect, o.result))
    for d in chk.cross_disagreements():
        ctx.inconclusive('cross-solver disagreement: %r' % (d,))
    for nm_, det_ in getattr(chk, 'shape_failures', []):
        ctx.inconclusive('the code no longer has the shape this check is written against (cannot decide): %s (%s)' % (nm_, str(det_)[:160]))
    for g in chk.grounds:
        if not g[1] and not getattr(chk, 'ground_handled', {}).get(g[0]):
            ctx.inconclusive('ground fact failed without handler: %s %s' % (g[0], g[2]))
    for k in chk.kani:
        if k.get('status') != 'SUCCESS' and not k.get('handled'):
            ctx.inconclusive('kani harness %s: %s' % (k.get('harness'), k.get('status')))
    ev = chk.evidence(level=ctx.level, explanation=ctx.explanation)
    if chk.inconclusive:
        ev['coverage']['inconclusive'] = chk.inconclusive
    # evidence describes /repo; a run against another tree (VERIF_REPO: seeded changes, mutation runs) or a partial debug run
    # (--only, VERIF_KANI_ONLY) must not overwrite it
    evdir = os.path.join(VERIF, 'evidence')
    if os.environ.get('VERIF_REPO') or getattr(ctx, 'only', None) or os.environ.get('VERIF_KANI_ONLY'):
        evdir = os.path.join(os.environ.get('VERIF_SCRATCH', '/var/tmp/verif-scratch'), 'evidence-not-for-repo')
    os.makedirs(evdir, exist_ok=True)
    with open(os.path.join(evdir, pid + '.json'), 'w') as fh:
        json.dump(ev, fh, indent=1, default=str)
    c = ev['coverage']
    print('%s tier=%s obligations=%d discharged=%d smt=%d kani=%d ground=%d solver=%.1fs wall=%.1fs' % (
        pid, a.tier, c['obligations'], c['discharged'], c['smt_queries'], len(chk.kani), c['ground_facts'],
        c['solver_seconds'], ev['wall_s']))
    if chk.violations:
        sys.exit(1)
    if chk.inconclusive:
        sys.exit(2)
    sys.exit(0)


if __name__ == '__main__':
    main()
