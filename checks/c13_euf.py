"""C13 S-euf: the generic bodies of expand_message_xmd, expand_message_xof and hash_to_field executed from MIR with the hash
function UNINTERPRETED.

A hash computation is the fold  state' = H_absorb(state, byte)  from H_init over every absorbed byte (in order, chunk boundaries
irrelevant -- exactly the contract of digest::Input), and output byte i is H_out(state, i) (fixed-output digests) or X_out(state, i)
(extendable output).  The implementation's result bytes are compared with an independent transcription of RFC 9380 5.3.1 / 5.3.2
written over the same uninterpreted symbols; every message byte and every tag byte is a free 8-bit variable, lengths come from a
boundary grid (tags of 0, 1, 254, 255 bytes; messages around the block size; output lengths around multiples of the digest size up
to 255 blocks; one block more must abort).  Because H_absorb / H_out are uninterpreted, agreement for every interpretation is
agreement for every Merkle-Damgard hash and every XOF (in particular SHA-256, SHA-512, SHAKE128, SHAKE256), and any change of the
absorbed byte string (order, count, suffix, counter, padding, length encoding) has an interpretation that separates the two sides.

hash_to_field::<T, X>: the expander X and T::from_ro are uninterpreted; the result must be from_ro applied to consecutive
L-byte blocks of ONE expander call with (msg, dst, count * L)."""
import z3
from mirsym.sym import State, GE, Agg, Enum, Ref, BV, Str, Inconclusive, PathDead, UNIT, Opaque
from mirsym import models
from mirsym.models import deref, seq_items, usize
from . import common as C

HS = z3.DeclareSort('HashState')
H_INIT = z3.Const('H_init', HS)
H_ABS = z3.Function('H_absorb', HS, z3.BitVecSort(8), HS)
H_OUT = z3.Function('H_out', HS, z3.IntSort(), z3.BitVecSort(8))
X_OUT = z3.Function('X_out', HS, z3.IntSort(), z3.BitVecSort(8))


def absorb(s, bs):
    for b in bs:
        s = H_ABS(s, b)
    return s


def bv8(v):
    return z3.BitVecVal(v & 0xff, 8)


def spec_H(parts, b):
    s = H_INIT
    for p in parts:
        s = absorb(s, p)
    return [H_OUT(s, z3.IntVal(i)) for i in range(b)]


def spec_xmd(msg, dst, n, b, sblk):
    """RFC 9380 5.3.1 (msg, dst: lists of 8-bit terms).  None = abort."""
    ell = -(-n // b)
    if ell > 255 or n > 65535 or len(dst) > 255:
        return None
    dp = dst + [bv8(len(dst))]
    b0 = spec_H([[bv8(0)] * sblk, msg, [bv8(n >> 8), bv8(n)], [bv8(0)], dp], b)
    bi = spec_H([b0, [bv8(1)], dp], b)
    out = list(bi)
    for i in range(2, ell + 1):
        bi = spec_H([[x ^ y for x, y in zip(b0, bi)], [bv8(i)], dp], b)
        out += bi
    return out[:n]


def spec_xof(msg, dst, n):
    s = absorb(H_INIT, msg + [bv8(n >> 8), bv8(n)] + dst + [bv8(len(dst))])
    return [X_OUT(s, z3.IntVal(i)) for i in range(n)]


def _bytes_of(ex, st, x):
    """the bytes handed to Input::input: a slice reference, an array / GenericArray by value or by reference"""
    if isinstance(x, Ref):
        v = ex.load(st, Ref(x.addr, x.path))
        if isinstance(v, Ref):
            return _bytes_of(ex, st, v)
        items, _ = seq_items(ex, st, x)
        return [i.z() for i in items]
    if isinstance(x, Agg):
        if len(x.f) == 1 and isinstance(x.f[0], Agg):
            return _bytes_of(ex, st, x.f[0])
        return [i.z() for i in x.f]
    if isinstance(x, Str):                      # a byte-string literal b"..."
        lit = x.s
        if lit.startswith('b"') and lit.endswith('"'):
            import ast
            return [bv8(c) for c in ast.literal_eval(lit)]
    raise Inconclusive('hash input %r' % (x,))


def hash_models(b, sblk, log):
    def h_new(ex, st, m, a):
        log.append('new')
        return GE('HashState', [H_INIT])

    def h_chain(ex, st, m, a):
        h, data = a
        bs = _bytes_of(ex, st, data)
        log.append(('absorb', len(bs)))
        return GE('HashState', [absorb(h.c[0], bs)])

    def h_result(ex, st, m, a):
        log.append('result')
        return Agg('[array]', [BV(8, False, H_OUT(a[0].c[0], z3.IntVal(i))) for i in range(b)])

    def h_vec_result(ex, st, m, a):
        h, n = a
        if not n.concrete:
            raise Inconclusive('symbolic output length')
        log.append(('squeeze', n.v))
        return Agg('Vec', [BV(8, False, X_OUT(h.c[0], z3.IntVal(i))) for i in range(n.v)])

    def h_to_usize(ex, st, m, a):
        s = m.group(0)
        if 'OutputSize' in s:
            return usize(b)
        if 'BlockSize' in s:
            return usize(sblk)
        raise Inconclusive('to_usize of %s' % s)

    def h_ga_default(ex, st, m, a):
        s = m.group(0)
        n = b if 'OutputSize' in s else sblk if 'BlockSize' in s else None
        if n is None:
            raise Inconclusive('GenericArray default of %s' % s)
        return Agg('[array]', [BV(8, False, 0)] * n)

    def h_extend(ex, st, m, a):
        v = deref(ex, st, a[0])
        items, _ = seq_items(ex, st, a[1])
        ex.store(st, a[0], Agg('Vec', tuple(v.f) + tuple(items)))
        return UNIT

    def h_bitxor(ex, st, m, a):
        x = deref(ex, st, a[0]) if isinstance(a[0], Ref) else a[0]
        y = deref(ex, st, a[1]) if isinstance(a[1], Ref) else a[1]
        return ex.binop('BitXor', x, y)
    return [
        (r'<<.+ as (?:digest::)?(?:Digest|FixedOutput)>::OutputSize as (?:\w+::)*Unsigned>::to_usize', h_to_usize),
        (r'<<.+ as (?:digest::)?BlockInput>::BlockSize as (?:\w+::)*Unsigned>::to_usize', h_to_usize),
        (r'<GenericArray<u8, <.+ as (?:digest::)?(?:Digest|FixedOutput)>::OutputSize> as Default>::default', h_ga_default),
        (r'<GenericArray<u8, <.+ as (?:digest::)?BlockInput>::BlockSize> as Default>::default', h_ga_default),
        (r'<GenericArray<.+> as (?:std::ops::)?Deref(?:Mut)?>::deref(?:_mut)?', models.m_array_as_slice),
        (r'<GenericArray<.+> as As(?:Ref|Mut)<\[u8\]>>::as_(?:ref|mut)', models.m_array_as_slice),
        (r'<\w+ as (?:digest::)?Digest>::new', h_new),
        (r'<\w+ as Default>::default', h_new),
        (r'<\w+ as (?:digest::)?(?:Digest|Input)>::chain::<.+>', h_chain),
        (r'<\w+ as (?:digest::)?Digest>::result', h_result),
        (r'<\w+ as (?:digest::)?ExtendableOutput>::vec_result', h_vec_result),
        (r'Vec::<u8>::extend_from_slice', h_extend),
    ]


def _fresh_bytes(prefix, n):
    return [z3.BitVec('%s%d' % (prefix, i), 8) for i in range(n)]


def _slice(ex, st, terms):
    r = ex.alloc(st, Agg('[array]', [BV(8, False, t) for t in terms]))
    return Ref(r.addr, r.path, usize(0), usize(len(terms)))


def _find_expanders(ex):
    xmd = xof = None
    for name, fl in ex.fns.items():
        if not name.endswith('::expand_message') or '<impl at' not in name:
            continue
        for f in fl:
            if ex.blocks_calling(f, r'Digest>::new'):
                xmd = f
            elif ex.blocks_calling(f, r'ExtendableOutput>::vec_result'):
                xof = f
    if xmd is None or xof is None:
        raise Inconclusive('expand_message bodies not found (xmd=%s xof=%s)' % (xmd, xof))
    return xmd, xof


def grid(tier):
    """(variant, b, sblk, |msg|, |dst|, len_in_bytes)"""
    g = []
    for (b, sblk) in ((32, 64), (64, 128), (2, 4)):
        mls = [0, 1, sblk - 1, sblk, sblk + 1] if b != 64 else [0, sblk]
        dls = [0, 1, 254, 255] if b == 32 else [0, 255] if b == 64 else [0, 1, 3]
        ols = [0, 1, b - 1, b, b + 1, 2 * b, 3 * b - 1]
        if tier == 'quick':
            pts = [(ml, dl, ol) for ml in mls for dl in dls for ol in ols if (ml, dl) in ((0, 0), (1, 255), (sblk, 1), (1, 254), (sblk + 1, 255), (0, 3), (1, 1))
                   or (ol == b + 1 and ml == 1)]
        else:
            pts = [(ml, dl, ol) for ml in mls for dl in dls for ol in ols]
        for p in pts:
            g.append(('xmd', b, sblk) + p)
    # the 255-block limit (2-byte and 1-byte digests keep the run short): 255 blocks served, anything above aborts
    for (b, sblk) in ((2, 4), (1, 4)):
        for ol in (254 * b, 255 * b - 1 if b > 1 else 254, 255 * b, 255 * b + 1, 256 * b - 1 if b > 1 else 256, 256 * b, 256 * b + 1):
            g.append(('xmd', b, sblk, 1, 2, ol))
    g.append(('xmd', 32, 64, 0, 0, 255 * 32 + 1))
    g.append(('xmd', 32, 64, 0, 0, 256 * 32))
    if tier != 'quick':
        g.append(('xmd', 32, 64, 1, 255, 255 * 32))
    for ml in ([0, 1, 64] if tier == 'quick' else [0, 1, 63, 64, 65, 200]):
        for dl in [0, 1, 254, 255]:
            for ol in ([0, 1, 33, 256] if tier == 'quick' else [0, 1, 32, 33, 255, 256, 257, 4096, 65535]):
                g.append(('xof', 32, 64, ml, dl, ol))
    seen, out = set(), []
    for x in g:
        if x not in seen:
            seen.add(x)
            out.append(x)
    return out


def expanders(ctx):
    chk = ctx.chk
    done = {}
    log = []
    for (b, sblk) in ((32, 64), (64, 128), (2, 4), (1, 4)):
        ex = C.new_executor(ctx, [], extra_models=hash_models(b, sblk, log))
        done[(b, sblk)] = ex
    xmd, xof = _find_expanders(done[(32, 64)])
    npts = 0
    for (variant, b, sblk, ml, dl, ol) in grid(ctx.tier):
        ex = done[(b, sblk)]
        f = xmd if variant == 'xmd' else xof
        st = State()
        msg, dst = _fresh_bytes('m', ml), _fresh_bytes('d', dl)
        mref, dref = _slice(ex, st, msg), _slice(ex, st, dst)
        want = spec_xmd(msg, dst, ol, b, sblk) if variant == 'xmd' else spec_xof(msg, dst, ol)
        nob = len(ex.obligations)
        del log[:]
        name = 'expand_message_%s(b=%d, s=%d) |msg|=%d |dst|=%d len=%d' % (variant, b, sblk, ml, dl, ol)
        npts += 1
        pt = {'variant': variant, 'b': b, 's': sblk, 'msg_len': ml, 'dst_len': dl, 'len': ol}
        try:
            r = ex.call_fn(st, f, [mref, dref, usize(ol)], {'HashT': 'H'})
            dead = False
        except PathDead:
            r, dead = None, True
        except Inconclusive as e:
            ex.harvested = len(ex.obligations)
            ctx.inconclusive('encoder: %s: %s' % (name, e))
            continue
        obs = ex.obligations[nob:]
        ex.harvested = len(ex.obligations)
        if want is None:
            # must abort: a panic obligation that is reached unconditionally
            aborts = [o for o in obs if 'panic' in o.msg]
            if dead and aborts:
                chk.must_sat(name + ': aborts (more than 255 blocks)', aborts[0].formula(), group='abort', meta=pt)
            else:
                chk.must_unsat(name + ': aborts (more than 255 blocks)', z3.BoolVal(True), group='abort', meta=pt,
                               text='the call returned %s bytes instead of aborting' % (len(r.f) if r is not None else '?'))
            continue
        if dead:
            chk.must_unsat(name + ': returns', z3.BoolVal(True), group='no-panic', meta=pt, text='aborts: %s' % '; '.join(o.msg for o in obs)[:200])
            continue
        got = [x.z() for x in r.f]
        if len(got) != ol:
            chk.must_unsat(name + ': output length', z3.BoolVal(True), group='bytes', meta=pt, text='%d bytes returned' % len(got))
            continue
        diff = [g_ != w for g_, w in zip(got, want) if not g_.eq(w)]
        chk.must_unsat(name + ': every output byte equals RFC 9380 5.3 for every message / tag byte and every hash',
                       z3.Or(*diff) if diff else z3.BoolVal(False), group='bytes', meta=pt)
        chk.must_unsat_any(name + ': no panic', [o.formula() for o in obs])
    for ex in done.values():
        chk.add_executor(ex)
    chk.extra['euf_expand_grid_points'] = npts


def h2f(ctx):
    chk = ctx.chk
    FE_S = z3.DeclareSort('FieldElem')
    calls = []
    for L in (48, 64, 128):
        FROM = z3.Function('from_ro_%d' % L, *([z3.BitVecSort(8)] * L + [FE_S]))
        EXP = z3.Function('expander_out', z3.IntSort(), z3.BitVecSort(8))

        def h_expand(ex, st, m, a):
            mref, dref, n = a
            if not n.concrete:
                raise Inconclusive('symbolic length')
            calls.append((ex.load(st, Ref(mref.addr, mref.path)).what, ex.load(st, Ref(dref.addr, dref.path)).what, n.v))
            return Agg('Vec', [BV(8, False, EXP(z3.IntVal(i))) for i in range(n.v)])

        def h_len(ex, st, m, a, L=L):
            return usize(L)

        def h_from_slice(ex, st, m, a, L=L):
            r = a[0]
            n = ex.seq_len(st, r)
            if n != L:
                ex.oblige(st, 'panic', False, 'GenericArray::from_slice: length %d != %d' % (n, L), ('leaf', m.group(0)))
                raise PathDead()
            return r

        def h_from_ro(ex, st, m, a, FROM=FROM):
            items, _ = seq_items(ex, st, a[0])
            return GE('FieldElem', [FROM(*[i.z() for i in items])])
        extra = [(r'<\w+ as (?:hash_to_field::)?ExpandMsg>::expand_message', h_expand),
                 (r'<<\w+ as (?:hash_to_field::)?FromRO>::Length as (?:\w+::)*Unsigned>::to_usize', h_len),
                 (r'GenericArray::<u8, <\w+ as (?:hash_to_field::)?FromRO>::Length>::from_slice', h_from_slice),
                 (r'<\w+ as (?:hash_to_field::)?FromRO>::from_ro', h_from_ro)]
        ex = C.new_executor(ctx, [], extra_models=extra)
        f = [x for x in ex.fns_named('hash_to_field') if len(x.params) == 3]
        if len(f) != 1:
            raise Inconclusive('hash_to_field body: %d candidates' % len(f))
        f = f[0]
        for cnt in ([0, 1, 2, 5] if ctx.tier == 'quick' else list(range(0, 9))):
            st = State()
            m_ = ex.alloc(st, Opaque('MSG'))
            d_ = ex.alloc(st, Opaque('DST'))
            del calls[:]
            nob = len(ex.obligations)
            r = ex.call_fn(st, f, [m_, d_, usize(cnt)], {'T': 'T', 'X': 'X'})
            name = 'hash_to_field(L=%d, count=%d)' % (L, cnt)
            chk.ground(name + ': exactly one expander call, with (msg, dst, count * L)', calls == [('MSG', 'DST', cnt * L)], str(calls))
            ok = isinstance(r, Agg) and len(r.f) == cnt
            chk.ground(name + ': returns count elements', ok, repr(r)[:80])
            if ok and cnt:
                want = [FROM(*[EXP(z3.IntVal(i * L + j)) for j in range(L)]) for i in range(cnt)]
                chk.must_unsat(name + ': element i = from_ro(bytes[i*L .. (i+1)*L])', z3.Or(*[g_.c[0] != w for g_, w in zip(r.f, want)]), group='blocks')
            chk.must_unsat_any(name + ': no panic', [o.formula() for o in ex.obligations[nob:]])
            ex.harvested = len(ex.obligations)
        chk.add_executor(ex)


def run_part(ctx):
    expanders(ctx)
    h2f(ctx)
