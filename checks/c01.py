"""C01  G1/G2 arithmetic is the elliptic-curve group law in every case.

S-ring: the G1 and G2 instantiations of curve_impl! (double, add_assign, add_assign_mixed, negate, ==,
conversions, default sub_assign) are executed from MIR over an abstract commutative ring; per case of the
specification's case split the outputs must equal the chord / tangent law written with explicit
denominators (polynomial identities), and the code's own case split must be the specification's.
K-toy: the same macro instantiated over toy prime fields is model-checked by Kani against an affine
reference for ALL points in ALL Jacobian representatives (incl. batch_normalization)."""
import z3
from mirsym import ref, models
from mirsym.sym import State, FE, Agg, Enum, Ref, BV, Inconclusive
from . import common as C
from . import kani_common as K


def tangent(X, Y, Z):
    """textbook tangent law for a = 0 with denominator Z3 = 2YZ:  x3 = l^2 - 2x, y3 = l(x - x3) - y, l = 3x^2/2y"""
    M = 3 * X * X
    Z3 = 2 * Y * Z
    X3 = M * M - 8 * X * Y * Y
    Y3 = M * (4 * X * Y * Y - X3) - 8 * Y * Y * Y * Y
    return [X3, Y3, Z3]


def chord(X1, Y1, Z1, X2, Y2, Z2):
    """textbook chord law with denominator Z3 = 2 Z1 Z2 (x2-x1 numerator):  l = (y2-y1)/(x2-x1)"""
    U1, U2 = X1 * Z2 * Z2, X2 * Z1 * Z1
    S1, S2 = Y1 * Z2 * Z2 * Z2, Y2 * Z1 * Z1 * Z1
    H = U2 - U1
    r = 2 * (S2 - S1)
    Z3 = 2 * Z1 * Z2 * H
    X3 = r * r - 4 * H * H * (U1 + U2)
    Y3 = r * (4 * H * H * U1 - X3) - 8 * S1 * H * H * H
    return [X3, Y3, Z3], (U1, U2, S1, S2)


def s_ring(ctx, ids):
    chk = ctx.chk
    for gname, proj, aff, base, leaf in [('G1', 'ec::g1::G1', 'ec::g1::G1Affine', 'fq::Fq', r'fq::Fq'),
                                         ('G2', 'ec::g2::G2', 'ec::g2::G2Affine', 'fq2::Fq2', r'fq2::Fq2')]:
        ex, D = C.ring_executor(ctx, ty_pat=leaf, name=gname + 'F')
        isz = D.iszero

        def mkf(n):
            return FE(base, z3.Int(n))
        X1, Y1, Z1, X2, Y2, Z2 = [mkf(n) for n in ('X1', 'Y1', 'Z1', 'X2', 'Y2', 'Z2')]
        x1, y1, z1, x2, y2, z2 = [v.e for v in (X1, Y1, Z1, X2, Y2, Z2)]
        P = Agg(proj, (X1, Y1, Z1))
        Q = Agg(proj, (X2, Y2, Z2))
        inf = z3.Bool('inf2')
        QA = Agg(aff, (X2, Y2, inf))
        CP = '<%s as CurveProjective>::' % proj
        nob = len(ex.obligations)

        def outs(v):
            return [f.e for f in v.f]
        # ---- double
        st = State()
        rp = ex.alloc(st, P)
        ex.call(st, CP + 'double', [rp])
        o = o_dbl = outs(ex.load(st, rp))
        ids.ident('%s.double: identity stays put' % gname, o, [x1, y1, z1], 'group-law', cond=isz(z1))
        ids.ident('%s.double: tangent law (a=0)' % gname, o, tangent(x1, y1, z1), 'group-law', cond=z3.Not(isz(z1)))
        # ---- add_assign
        st = State()
        rp, rq = ex.alloc(st, P), ex.alloc(st, Q)
        ex.call(st, CP + 'add_assign', [rp, rq])
        o = o_add = outs(ex.load(st, rp))
        cs, (U1, U2, S1, S2) = chord(x1, y1, z1, x2, y2, z2)
        nz = z3.And(z3.Not(isz(z1)), z3.Not(isz(z2)))
        same = z3.And(isz(U1 - U2), isz(S1 - S2))
        ids.ident('%s.add_assign: O + Q = Q' % gname, o, [x2, y2, z2], 'group-law', cond=isz(z1))
        ids.ident('%s.add_assign: P + O = P' % gname, o, [x1, y1, z1], 'group-law', cond=z3.And(z3.Not(isz(z1)), isz(z2)))
        ids.ident('%s.add_assign: P + P = tangent law' % gname, o, tangent(x1, y1, z1), 'group-law', cond=z3.And(nz, same))
        ids.ident('%s.add_assign: chord law (incl. P + (-P): Z3 = 2 Z1 Z2 H)' % gname, o, cs, 'group-law', cond=z3.And(nz, z3.Not(same)))
        # ---- add_assign_mixed
        st = State()
        rp, rq = ex.alloc(st, P), ex.alloc(st, QA)
        ex.call(st, CP + 'add_assign_mixed', [rp, rq])
        o = outs(ex.load(st, rp))
        cm, (U1m, U2m, S1m, S2m) = chord(x1, y1, z1, x2, y2, 1)
        samem = z3.And(isz(U1m - U2m), isz(S1m - S2m))
        ids.ident('%s.add_assign_mixed: P + O = P' % gname, o, [x1, y1, z1], 'group-law', cond=inf)
        ids.ident('%s.add_assign_mixed: O + Q = (x2, y2, 1)' % gname, o, [x2, y2, 1], 'group-law', cond=z3.And(z3.Not(inf), isz(z1)))
        ids.ident('%s.add_assign_mixed: P + P = tangent law' % gname, o, tangent(x1, y1, z1), 'group-law',
                  cond=z3.And(z3.Not(inf), z3.Not(isz(z1)), samem))
        ids.ident('%s.add_assign_mixed: chord law' % gname, o, cm, 'group-law', cond=z3.And(z3.Not(inf), z3.Not(isz(z1)), z3.Not(samem)))
        if gname == 'G1':
            validate_translator(ctx, D, {'g1_double': (o_dbl, 3), 'g1_add': (o_add, 6), 'g1_add_mixed': (o, 6)})
        # ---- negate (projective and affine)
        st = State()
        rp = ex.alloc(st, P)
        ex.call(st, CP + 'negate', [rp])
        o = outs(ex.load(st, rp))
        ids.ident('%s.negate: (X, -Y, Z)' % gname, o, [x1, -y1, z1], 'group-law', cond=z3.Not(isz(z1)))
        ids.ident('%s.negate: identity unchanged' % gname, o, [x1, y1, z1], 'group-law', cond=isz(z1))
        st = State()
        rq = ex.alloc(st, QA)
        ex.call(st, '<%s as CurveAffine>::negate' % aff, [rq])
        oa = ex.load(st, rq)
        ids.ident('%s.affine negate: (x, -y)' % gname, [oa.f[0].e, oa.f[1].e], [x2, -y2], 'group-law', cond=z3.Not(inf))
        ids.ident('%s.affine negate: identity unchanged' % gname, [oa.f[0].e, oa.f[1].e], [x2, y2], 'group-law', cond=inf)
        chk.must_unsat('%s.affine negate keeps the infinity flag' % gname, z3.Xor(C.mk(oa.f[2]), inf), group='case-structure')
        # ---- default sub_assign / sub_assign_mixed = negate + add (real default bodies from lib.rs)
        st = State()
        rp, rq = ex.alloc(st, P), ex.alloc(st, Q)
        ex.call(st, CP + 'sub_assign', [rp, rq])
        o_sub = outs(ex.load(st, rp))
        st = State()
        rp = ex.alloc(st, P)
        rnq = ex.alloc(st, Agg(proj, (X2, FE(base, z3.If(isz(z2), y2, -y2)), Z2)))
        ex.call(st, CP + 'add_assign', [rp, rnq])
        ids.ident('%s.sub_assign(P,Q) = add_assign(P, negate(Q))' % gname, o_sub, outs(ex.load(st, rp)), 'group-law')
        st = State()
        rp, rq = ex.alloc(st, P), ex.alloc(st, QA)
        ex.call(st, CP + 'sub_assign_mixed', [rp, rq])
        o_sub = outs(ex.load(st, rp))
        st = State()
        rp = ex.alloc(st, P)
        rnq = ex.alloc(st, Agg(aff, (X2, FE(base, z3.If(inf, y2, -y2)), inf)))
        ex.call(st, CP + 'add_assign_mixed', [rp, rnq])
        ids.ident('%s.sub_assign_mixed(P,Q) = add_assign_mixed(P, negate(Q))' % gname, o_sub, outs(ex.load(st, rp)), 'group-law')
        # ---- equality
        st = State()
        rp, rq = ex.alloc(st, P), ex.alloc(st, Q)
        e = ex.call(st, '<%s as PartialEq>::eq' % proj, [rp, rq])
        want = z3.Or(z3.And(isz(z1), isz(z2)),
                     z3.And(z3.Not(isz(z1)), z3.Not(isz(z2)), isz(x1 * z2 * z2 - x2 * z1 * z1), isz(y1 * z2 * z2 * z2 - y2 * z1 * z1 * z1)))
        chk.must_unsat('%s ==: both identity, or both finite with X1 Z2^2 = X2 Z1^2 and Y1 Z2^3 = Y2 Z1^3' % gname,
                       z3.Xor(C.mk(e), want), group='case-structure')
        # ---- is_zero / zero
        st = State()
        rp = ex.alloc(st, P)
        iz = ex.call(st, CP + 'is_zero', [rp])
        chk.must_unsat('%s.is_zero <=> Z = 0' % gname, z3.Xor(C.mk(iz), isz(z1)), group='case-structure')
        zv = ex.call(st, CP + 'zero', [])
        chk.must_unsat('%s.zero has Z = 0' % gname, z3.Not(C.mk(isz(zv.f[2].e))), group='case-structure')
        # ---- conversions
        st = State()
        r = ex.call(st, '<%s as From<%s>>::from' % (proj, aff), [QA])
        ids.ident('%s.from(affine): finite -> (x, y, 1)' % gname, outs(r), [x2, y2, 1], 'conversion', cond=z3.Not(inf))
        chk.must_unsat('%s.from(affine): infinity -> Z = 0' % gname, z3.And(inf, z3.Not(C.mk(isz(r.f[2].e)))), group='conversion')
        n0 = len(D.inv_facts)
        st = State()
        r = ex.call(st, '<%s as From<%s>>::from' % (aff, proj), [P])
        ax, ay, ainf = r.f[0].e, r.f[1].e, r.f[2]
        chk.must_unsat('%s.into_affine: infinity flag <=> Z = 0' % gname, z3.Xor(C.mk(ainf), isz(z1)), group='conversion')
        if len(D.inv_facts) != n0 + 1:
            raise Inconclusive('into_affine: expected one leaf inversion')
        t, n = D.inv_facts[-1]
        ids.ident('%s.into_affine: inverts exactly Z' % gname, [n], [z1], 'conversion')
        one_z = isz(z1 - 1)
        ids.ident('%s.into_affine: Z = 1 fast path returns (X, Y)' % gname, [ax, ay], [x1, y1], 'conversion', cond=z3.And(z3.Not(isz(z1)), one_z))
        # general path: x = X t^2, y = Y t^3 with t Z = 1   (so x Z^2 = X (tZ)^2 = X)
        ids.ident('%s.into_affine: (x, y) = (X t^2, Y t^3), t = 1/Z' % gname, [ax, ay], [x1 * t * t, y1 * t * t * t], 'conversion',
                  cond=z3.And(z3.Not(isz(z1)), z3.Not(one_z)))
        # every panic site (unwrap of inverse on a non-zero Z) is unreachable given the field axiom: inverse is Some iff != 0
        for i, ob in enumerate(ex.obligations[nob:]):
            chk.must_unsat('%s/no-panic#%d %s' % (gname, i, ob.where), ob.formula(), group='no-panic', text='%s %s' % (ob.msg, ob.where))
        chk.add_executor(ex)
    chk.assumptions += ['Fq / Fq2 are commutative rings; inverse() is Some(t), t*n = 1, exactly when n != 0 (C08, C09)',
                        'field-specific step used outside the solver: in a field, U1 = U2 and S1 != S2 give H = 0 hence Z3 = 2 Z1 Z2 H = 0 '
                        '(P + (-P) = O); and (X,Y,Z) ~ (l^2 X, l^3 Y, l Z) represent the same affine point (K-toy decides both on real fields)']


def validate_translator(ctx, D, ops):
    """DESIGN 2.5: the symbolic outputs of double / add_assign / add_assign_mixed (G1, from MIR) are evaluated modulo q at concrete
    Jacobian triples -- generic ones and one per branch (O + Q, P + O, equal points under different Z, opposite points) -- and compared
    with the raw output coordinates of the NATIVE release build on the same triples.  A disagreement means the encoder or a leaf
    model is wrong: exit 2, never a pass or a violation."""
    import random
    from mirsym import load, ref
    q = ref.Q
    rnd = random.Random(ctx.seed * 65537 + 1)
    val = {symv.decl().name(): ref.from_mont(n) for key, (symv, n) in D.opaque.items()}

    def rv():
        return rnd.randrange(1, q)
    triples = []
    for _ in range(3):
        triples.append(([rv(), rv(), rv()], [rv(), rv(), rv()]))
    x, y, z, l = rv(), rv(), rv(), rv()
    triples.append(([x, y, 0], [rv(), rv(), rv()]))                                            # O + Q
    triples.append(([rv(), rv(), rv()], [x, y, 0]))                                            # P + O
    triples.append(([x, y, z], [x * l * l % q, y * pow(l, 3, q) % q, z * l % q]))              # same point, different representative
    triples.append(([x, y, z], [x * l * l % q, -y * pow(l, 3, q) % q, z * l % q]))             # opposite points
    triples.append(([x, y, 1], [x, y, 1]))
    cases = []
    for op, (outs_, nargs) in ops.items():
        for (p, q_) in triples:
            for infv in ((False, True) if op == 'g1_add_mixed' else (False,)):
                env = dict(val)
                env.update({'X1': p[0], 'Y1': p[1], 'Z1': p[2], 'X2': q_[0], 'Y2': q_[1], 'Z2': q_[2], 'inf2': infv})
                want = ' '.join('%096x' % C.eval_mod(C.zi(t), env, q) for t in outs_)
                if op == 'g1_double':
                    cmd = 'g1_double %x %x %x' % tuple(p)
                elif op == 'g1_add':
                    cmd = 'g1_add %x %x %x %x %x %x' % tuple(p + q_)
                else:
                    cmd = 'g1_add_mixed %x %x %x %x %x %d' % (p[0], p[1], p[2], q_[0], q_[1], 1 if infv else 0)
                cases.append((cmd, want))
    n = load.Native('release')
    try:
        got = n.run([c for c, _ in cases])
    finally:
        n.close()
    bad = [(c[:60], o[:40], w[:40]) for (c, w), o in zip(cases, got) if o.strip() != w]
    ctx.chk.extra['translator_validation'] = {'cases': len(cases), 'disagreements': len(bad),
                                              'what': 'symbolic G1 double/add_assign/add_assign_mixed outputs (from MIR) evaluated mod q vs raw Jacobian output of the native release build, incl. one triple per branch'}
    if bad:
        ctx.inconclusive('translator validation: symbolic execution disagrees with the native code on %d of %d concrete cases, e.g. %r' % (len(bad), len(cases), bad[0]))


def run(ctx):
    chk = ctx.chk
    ctx.explanation = ('S-ring: MIR of the G1/G2 instantiations of curve_impl! executed over an abstract commutative ring, every case of '
                       'the group law as a polynomial identity / case-split equivalence decided by z3. K-toy: Kani/CBMC bounded model '
                       'checking of the same macro over toy prime fields against an affine reference, all points x all representatives')
    ids = C.Identities(ctx, 'group-law')
    only = getattr(ctx, 'only', None)
    if not only or 'S' in only:
        s_ring(ctx, ids)
    chk.bounds = {'S-ring': 'no bound: identities over every commutative ring, all Jacobian triples (no curve-membership assumption needed)',
                  'K-toy': 'see kani harness list'}
    chk.trusted += ['rustc MIR printer', 'mirsym', 'z3', 'Kani 0.68 / CBMC 6.11']
    chk.discharge()
    ids.settle()
    C.settle_structural(ctx, ('case-structure', 'conversion', 'no-panic'), 'group-law')
    if not only or 'K' in only:
        K.run_harnesses(ctx, 'c01', tier_filter=True)
        K.report_failures(ctx, 'group-law')


def replay(ctx, path):
    run(ctx)
    return 1 if ctx.chk.violations else 0
