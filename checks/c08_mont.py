"""S-lia part of C08: Montgomery multiplication as linear-integer obligations over the limb equations of the real MIR.

The derive-generated mul_assign / square / mont_reduce / into_repr are executed from MIR with every u64 an *integer*
term: each ff::mac_with_carry(a,b,c,carry) contributes  lo + 2^64 hi = a + b*c + carry  (0 <= lo,hi < 2^64), each adc
likewise; products of two symbolic limbs are opaque bounded integers (so everything is linear); products with the
constant modulus limbs are linear; k = r*INV (wrapping) enters only through the 64-bit lemma  r + (r*INV)*q0 = 0 mod 2^64
(proved separately on bit-vectors with the crate's own INV and modulus).  Execution stops at the call of reduce()
(whose behaviour is the K-bits add/sub harnesses' business)."""
import z3
from mirsym import ref, models
from mirsym.sym import State, BV, Agg, Enum, Ref, Inconclusive, UNIT, PathDead
from mirsym.models import deref, _const_limbs
from . import common as C

B64 = 1 << 64


class IW:
    """u64 held as an integer term. kind: None | 'even' (result of x << 1) | 'bit' (result of x >> 63)"""
    __slots__ = ('e', 'origin', 'kind')

    def __init__(self, e, origin=None, kind=None):
        self.e, self.origin, self.kind = e, origin, kind

    def __repr__(self):
        return 'IW(%s)' % (self.e,)


class Lia:
    def __init__(self, name, nlimbs, modulus, inv):
        self.name, self.n, self.q, self.inv = name, nlimbs, modulus, inv
        self.facts = []
        self.prods = {}
        self.ks = []
        self.cnt = 0
        self.splits = {}
        self.captured = None

    def fresh(self, base, hi=B64 - 1):
        self.cnt += 1
        v = z3.Int('%s_%s%d' % (self.name, base, self.cnt))
        self.facts += [v >= 0, v <= hi]
        return v

    def term(self, x):
        if isinstance(x, IW):
            return x.e
        if isinstance(x, BV) and x.concrete:
            return x.v
        raise Inconclusive('non-integer word in LIA mode: %r' % (x,))

    def prod(self, b, c):
        tb, tc = self.term(b), self.term(c)
        if isinstance(tb, int) or isinstance(tc, int):
            return tb * tc
        key = tuple(sorted([str(tb), str(tc)]))
        if key not in self.prods:
            self.prods[key] = (self.fresh('p', (B64 - 1) ** 2), tb, tc)
        return self.prods[key][0]

    def split_top(self, x):
        """x = t * 2^63 + low with t in {0,1}, 0 <= low < 2^63 (cached per term)"""
        key = str(self.term(x))
        if key not in self.splits:
            t, low = self.fresh('t', 1), self.fresh('low', (1 << 63) - 1)
            self.facts.append(self.term(x) == t * (1 << 63) + low)
            self.splits[key] = (t, low)
        return self.splits[key]

    def binop_hook(self, op, a, b):
        if not isinstance(a, IW):
            return None
        if op == 'Shr' and isinstance(b, BV) and b.concrete and b.v == 63:
            return IW(self.split_top(a)[0], kind='bit')
        if op == 'Shl' and isinstance(b, BV) and b.concrete and b.v == 1:
            return IW(2 * self.split_top(a)[1], kind='even')
        if op == 'BitOr' and isinstance(b, IW) and ((a.kind == 'even' and b.kind == 'bit') or (a.kind == 'bit' and b.kind == 'even')):
            return IW(a.e + b.e)       # an even word or-ed with a single low bit is their sum
        raise Inconclusive('operation %s on integer-valued words not modelled' % op)

    def models(self, reduce_pat):
        L = self

        def m_mac(ex, st, m, a):
            x, b, c, cr = a
            cin = deref(ex, st, cr)
            lo, hi = L.fresh('lo'), L.fresh('hi')
            L.facts.append(lo + B64 * hi == L.term(x) + L.prod(b, c) + L.term(cin))
            # Montgomery step: x + (x*INV mod 2^64) * q0 has a zero low word (64-bit lemma, proved separately)
            if isinstance(b, IW) and b.origin is not None and b.origin is x and isinstance(c, BV) and c.concrete and c.v == (L.q & (B64 - 1)) \
                    and isinstance(cin, BV) and cin.concrete and cin.v == 0:
                L.facts.append(lo == 0)
                L.lemma_uses = getattr(L, 'lemma_uses', 0) + 1
            ex.store(st, cr, IW(hi))
            return IW(lo)

        def m_adc(ex, st, m, a):
            x, y, cr = a
            cin = deref(ex, st, cr)
            lo, hi = L.fresh('lo'), L.fresh('c', 1)
            L.facts.append(lo + B64 * hi == L.term(x) + L.term(y) + L.term(cin))
            ex.store(st, cr, IW(hi))
            return IW(lo)

        def m_wmul(ex, st, m, a):
            x, y = a
            if isinstance(y, BV) and y.concrete and y.v == L.inv and isinstance(x, IW):
                k = IW(L.fresh('k'), origin=x)
                L.ks.append(k)
                return k
            raise Inconclusive('wrapping_mul in LIA mode with unexpected operands')

        def m_reduce(ex, st, m, a):
            v = deref(ex, st, a[0])
            limbs = v.f[0].f[0].f
            L.captured = [L.term(x) for x in limbs]
            return UNIT
        return [(r'(ff::)?mac_with_carry', m_mac), (r'(ff::)?adc', m_adc), (r'core::num::<impl u64>::wrapping_mul', m_wmul), (reduce_pat, m_reduce)]


def limbs_value(ts):
    return sum(t * (B64 ** i) for i, t in enumerate(ts))


def field_case(ctx, fname, ty, repr_ty, n, qref):
    chk = ctx.chk
    ex0 = C.new_executor(ctx, [])
    st0 = State()
    qv = sum(x << (64 * i) for i, x in enumerate(_const_limbs(ex0.named_const(st0, fname + '::MODULUS'))))
    inv = ex0.named_const(st0, fname + '::INV').v
    Rv = sum(x << (64 * i) for i, x in enumerate(_const_limbs(ex0.named_const(st0, fname + '::R'))))
    R2v = sum(x << (64 * i) for i, x in enumerate(_const_limbs(ex0.named_const(st0, fname + '::R2'))))
    bits = 64 * n
    chk.ground('%s: MODULUS literal equals the independent specification value' % fname, qv == qref, hex(qv))
    chk.ground('%s: INV * q = -1 (mod 2^64)' % fname, (inv * qv) % B64 == B64 - 1, hex(inv))
    chk.ground('%s: R = 2^%d mod q, R2 = R^2 mod q' % (fname, bits), Rv == pow(2, bits, qv) and R2v == pow(2, 2 * bits, qv))
    # 64-bit lemma on bit-vectors with the crate's constants
    x = z3.BitVec('x', 64)
    chk.must_unsat('%s: 64-bit Montgomery lemma  x + (x*INV)*q0 = 0 (mod 2^64)' % fname,
                   x + (x * z3.BitVecVal(inv, 64)) * z3.BitVecVal(qv & (B64 - 1), 64) != 0, group='montgomery')
    chk.add_executor(ex0)
    results = {}
    for meth in ('mul_assign', 'square', 'into_repr'):
        L = Lia(fname + '_' + meth, n, qv, inv)
        red = r'fq::<impl at [^>]+>::reduce|fr::<impl at [^>]+>::reduce|' + ty.replace('::', r'::') + r'::reduce'
        ex = C.new_executor(ctx, L.models(r'(?:' + red + r')'))
        ex.binop_hooks.append(L.binop_hook)
        a = [IW(L.fresh('a')) for _ in range(n)]
        b = [IW(L.fresh('b')) for _ in range(n)]

        def mk(ls):
            return Agg(ty, (Agg(repr_ty, (Agg('[array]', ls),)),))
        st = State()
        ra, rb = ex.alloc(st, mk(a)), ex.alloc(st, mk(b))
        callee = '<%s as ff::Field>::%s' % (ty, meth) if meth != 'into_repr' else '<%s as ff::PrimeField>::into_repr' % ty
        ex.call(st, callee, [ra, rb] if meth == 'mul_assign' else [ra])
        if L.captured is None:
            raise Inconclusive('%s.%s: reduce() call not reached' % (fname, meth))
        out = L.captured
        A, Bv = limbs_value([t.e for t in a]), limbs_value([t.e for t in b])
        K = limbs_value([k.e for k in L.ks])
        facts = z3.And(*L.facts)
        # total = sum over recorded opaque products (each is the product of the two limbs it stands for)
        if meth == 'into_repr':
            T = A
            tot_desc = 'A'
        else:
            # distributivity: sum_ij a_i b_j 2^(64(i+j)) with p standing for a_i*b_j
            other = b if meth == 'mul_assign' else a
            T = 0
            for i in range(n):
                for j in range(n):
                    T = T + L.prod(a[i], other[j]) * (B64 ** (i + j))
            tot_desc = 'sum p_ij 2^(64(i+j))'
        OUT = limbs_value(out)
        pre = '%s.%s: ' % (fname, meth)
        bound = (qv - 1) ** 2 if meth != 'into_repr' else qv - 1
        chk.must_unsat(pre + 'for a total <= %s: (value before reduce) * 2^%d = %s + K*q  (K = sum k_i 2^(64i)); in particular the carry out of the top limb is 0'
                       % ('(q-1)^2' if meth != 'into_repr' else 'q-1', bits, tot_desc),
                       z3.And(facts, T <= bound, T >= 0, OUT * (1 << bits) != T + K * qv), group='montgomery', cap=600)
        chk.must_unsat(pre + 'under operands < q (product <= (q-1)^2) the value before reduce is < 2q, so one conditional subtraction reduces it',
                       z3.And(facts, T <= bound, T >= 0, OUT >= 2 * qv), group='montgomery', cap=600)
        chk.must_sat(pre + 'limb equations are satisfiable (non-vacuous)', z3.And(facts, T <= bound), group='vacuity')
        chk.ground(pre + 'one Montgomery step per limb (k_i = r_i * INV), 64-bit lemma applied %d times' % n, len(L.ks) == n and getattr(L, 'lemma_uses', 0) == n,
                   '%d quotient digits, %d lemma uses' % (len(L.ks), getattr(L, 'lemma_uses', 0)))
        np_ = len(L.prods)
        chk.ground(pre + 'number of distinct limb products', np_ == (n * n if meth == 'mul_assign' else (n * (n + 1) // 2 if meth == 'square' else 0)), str(np_))
        chk.must_unsat_any(pre + 'no index out of range', [o.formula() for o in ex.obligations])
        chk.add_executor(ex)
        results[meth] = len(L.facts)
    chk.extra[fname + '_limb_equations'] = results


def literals(ctx):
    """every hard-coded Montgomery-form literal equals its documented value * R mod q"""
    chk = ctx.chk
    ex = C.new_executor(ctx, [])
    st = State()
    q, r = ref.Q, ref.R_ORDER

    def fqc(name):
        v = ex.named_const(st, name)
        if v is None:
            raise Inconclusive('constant %s not found' % name)
        return ref.from_mont(sum(x << (64 * i) for i, x in enumerate(_const_limbs(v))))
    chk.ground('B_COEFF = 4', fqc('fq::B_COEFF') == 4)
    chk.ground('NEGATIVE_ONE = q - 1', fqc('fq::NEGATIVE_ONE') == q - 1)
    gx, gy = fqc('fq::G1_GENERATOR_X'), fqc('fq::G1_GENERATOR_Y')
    chk.ground('G1 generator literal is the standard generator and lies on y^2 = x^3 + 4',
               gx == 0x17f1d3a73197d7942695638c4fa9ac0fc3688c4f9774b905a14e3a3f171bac586c55e83ff97a1aeffb3af00adb22c6bb and
               gy == 0x08b3f481e3aaa0f1a09e30ed741d8ae4fcf5e095d5d00af600db18cb2c04b3edd03cc744a2888ae40caa232946c5e7e1 and (gy * gy - gx ** 3 - 4) % q == 0)
    g2x = (fqc('fq::G2_GENERATOR_X_C0'), fqc('fq::G2_GENERATOR_X_C1'))
    g2y = (fqc('fq::G2_GENERATOR_Y_C0'), fqc('fq::G2_GENERATOR_Y_C1'))
    chk.ground('G2 generator literal lies on y^2 = x^3 + 4(1+u) and has order r',
               ref.E2.on_curve((g2x, g2y)) and ref.E2.smul(r, (g2x, g2y)) is None and g2x[0] == 0x024aa2b2f08f0a91260805272dc51051c6e47ad4fa403b02b4510b647ae3d1770bac0326a805bbefd48056c8c121bdb8)
    chk.ground('G1 generator has order r', ref.E1.smul(r, (gx, gy)) is None)
    f2 = ex.named_const(st, 'F_2_256')
    chk.ground('from_okm multiplier F_2_256 = 2^256 (Montgomery form)', ref.from_mont(sum(x << (64 * i) for i, x in enumerate(_const_limbs(f2)))) == pow(2, 256, q))
    f3 = ex.named_const(st, 'F_2_192')
    chk.ground('from_okm multiplier F_2_192 = 2^192 in Fr (Montgomery form)', ref.from_mont(sum(x << (64 * i) for i, x in enumerate(_const_limbs(f3))), r, 256) == pow(2, 192, r))
    for nm, mod, bits_, S_expected in (('fq', q, 384, 1), ('fr', r, 256, 32)):
        gen = ref.from_mont(sum(x << (64 * i) for i, x in enumerate(_const_limbs(ex.named_const(st, nm + '::GENERATOR')))), mod, bits_)
        rou = ref.from_mont(sum(x << (64 * i) for i, x in enumerate(_const_limbs(ex.named_const(st, nm + '::ROOT_OF_UNITY')))), mod, bits_)
        S = ex.named_const(st, nm + '::S').v
        t = (mod - 1) >> S
        chk.ground('%s: S = 2-adicity of modulus-1, GENERATOR is a quadratic non-residue, ROOT_OF_UNITY = GENERATOR^t of exact order 2^S' % nm,
                   S == S_expected and (mod - 1) % (1 << S) == 0 and t % 2 == 1 and pow(gen, (mod - 1) // 2, mod) == mod - 1 and
                   rou == pow(gen, t, mod) and pow(rou, 1 << (S - 1), mod) == mod - 1, 'S=%d' % S)
    chk.add_executor(ex)


def run_part(ctx):
    field_case(ctx, 'fq', 'fq::Fq', 'fq::FqRepr', 6, ref.Q)
    field_case(ctx, 'fr', 'fr::Fr', 'fr::FrRepr', 4, ref.R_ORDER)
    literals(ctx)
    chk = ctx.chk
    chk.assumptions += ['the only non-linear steps, stated not hidden: sum_ij p_ij 2^(64(i+j)) = A*B when p_ij = a_i*b_j (distributivity) and A,B < q => A*B <= (q-1)^2; '
                        'with them: mul_assign(a,b) * 2^(64n) = a*b (mod q) with a reduced result after reduce()']
    chk.bounds['montgomery'] = 'all limb values (integer-valued unknowns with exact range constraints); no loop (straight-line generated code)'
    chk.discharge()
    for o in chk.failed():
        if o.group == 'montgomery' and not o.handled:
            o.handled = True
            ctx.violation('montgomery:' + o.name.split(':')[0], 'Montgomery arithmetic obligation fails: ' + o.name, {'obligation': o.name, 'model': o.model})
    for g_ in chk.grounds:
        if not g_[1]:
            chk.ground_handled = getattr(chk, 'ground_handled', {})
            chk.ground_handled[g_[0]] = True
            ctx.violation('field-constants:' + g_[0][:40], 'field constant fact fails: %s (%s)' % (g_[0], g_[2]), {'fact': g_[0], 'detail': g_[2]})
