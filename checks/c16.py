"""C16  the isogeny maps are the RFC 11- and 3-isogenies and respect the group law.

S-ring: eval_iso (generic) executed from MIR with the four coefficient slices SYMBOLIC at their real lengths, over an
abstract commutative ring, for the G1 (Fq) and G2 (Fq2) instantiations.  A cut after the Horner loops captures the four
homogenised polynomial values (checked against the direct sum) and replaces them by fresh symbols for the final
Jacobian recombination.  The 55 + 15 constants are then checked as exact polynomial identities over Fq / Fq2:
the rational map sends E' into E for every x."""
import z3
from mirsym import ref, models
from mirsym.sym import State, FE, Agg, Enum, Ref, BV, Inconclusive, CutReached
from mirsym.models import _const_limbs
from . import common as C


def run(ctx):
    chk = ctx.chk
    ctx.explanation = ('symbolic execution of eval_iso over an abstract ring with symbolic coefficient tables (structure: the code evaluates the '
                       'rational map x -> xnum/xden, y -> y ynum/yden in Jacobian form, independent of the representative), then exact '
                       'polynomial arithmetic over Fq / Fq2 on the constants (the map lands on the target curve for every input)')
    ids = C.Identities(ctx, 'isogeny')
    tables = {}
    for gname, proj, base, leaf, lens in [('G1', 'ec::g1::G1', 'fq::Fq', r'fq::Fq', (12, 11, 16, 16)), ('G2', 'ec::g2::G2', 'fq2::Fq2', r'fq2::Fq2', (4, 3, 4, 4))]:
        ex, D = C.ring_executor(ctx, ty_pat=leaf, name=gname + 'F', generics_hint={'eval_iso': {'PtT': proj}},
                                assoc_types={'<%s as CurveProjective>::Base' % proj: base})

        def fe(n):
            return FE(base, z3.Int(n))
        X, Y, Z = fe('X'), fe('Y'), fe('Z')
        x, y, z = X.e, Y.e, Z.e
        st = State()
        pt = ex.alloc(st, Agg(proj, (X, Y, Z)))
        names = ['xn', 'xd', 'yn', 'yd']
        coef = [[z3.Int('%s%d' % (names[t], j)) for j in range(lens[t])] for t in range(4)]
        arrs = [ex.alloc(st, Agg('[array]', [FE(base, c) for c in coef[t]])) for t in range(4)]
        slices = Agg('[array]', [Ref(arrs[t].addr, (), BV(64, False, 0), BV(64, False, lens[t])) for t in range(4)])
        f = ex.fn_by_name('eval_iso')
        splits = ex.blocks_calling(f, r'split_at_mut')
        ops0 = [0]
        fresh = [z3.Int('m%d' % i) for i in range(4)]
        got = {}

        def cut(ex_, st_, fr, k):
            # first split_at_mut reached after the Horner loops have run (ring additions happened)
            if 'mapvals' in got:
                return
            adds = ex_.leaf_used.get([p for p in ex_.leaf_used if p.endswith('add_assign')][0], 0) if [p for p in ex_.leaf_used if p.endswith('add_assign')] else 0
            if adds == 0:
                return
            mv = ex_.load(st_, ex_.local_ref(fr, 'mapvals'))
            got['mapvals'] = [v.e for v in mv.f]
            ex_.store(st_, ex_.local_ref(fr, 'mapvals'), Agg('[array]', [FE(base, m) for m in fresh]))
        ex.cuts = {(f.name, b): cut for b in splits}
        nob = len(ex.obligations)
        ex.call(st, 'eval_iso::<%s>' % proj, [pt, slices])
        ex.cuts = {}
        if 'mapvals' not in got:
            raise Inconclusive('eval_iso: cut after the Horner loops not reached')
        out = ex.load(st, pt)
        Xo, Yo, Zo = [v.e for v in out.f]
        z2 = z * z

        def hom(c):
            k = len(c) - 1
            tot = 0
            for j in range(k + 1):
                term = c[j]
                for _ in range(j):
                    term = term * x
                for _ in range(k - j):
                    term = term * z2
                tot = tot + term
            return tot
        want = [hom(coef[0]), hom(coef[1]) * z2, hom(coef[2]) * y, hom(coef[3]) * z * z2]
        lab = ['xnum_h = sum c_j X^j (Z^2)^(deg-j)', 'xden_h = (sum c_j X^j (Z^2)^(deg-j)) * Z^2', 'ynum_h = (sum ...) * Y', 'yden_h = (sum ...) * Z^3']
        for i in range(4):
            ids.ident('%s.eval_iso: %s' % (gname, lab[i]), [got['mapvals'][i]], [want[i]], 'isogeny-structure')
        m0, m1, m2, m3 = fresh
        ids.ident('%s.eval_iso: Z\' = xden_h*yden_h, X\' = xnum_h*yden_h*Z\', Y\' = Z\'^2*ynum_h*xden_h  (x\' = X\'/Z\'^2 = xnum/xden, y\' = Y\'/Z\'^3 = y ynum/yden)' % gname,
                  [Xo, Yo, Zo], [m0 * m3 * (m1 * m3), (m1 * m3) * (m1 * m3) * m2 * m1, m1 * m3], 'isogeny-structure')
        chk.must_unsat_any('%s.eval_iso: no index out of range for table lengths %s' % (gname, lens), [o.formula() for o in ex.obligations[nob:]])
        chk.add_executor(ex)
        # ---- the real constants
        ex0 = C.new_executor(ctx, [])
        st0 = State()
        tabs = []
        for nm in ('XNUM', 'XDEN', 'YNUM', 'YDEN'):
            v = ex0.named_const(st0, 'isogeny::%s::%s' % (gname.lower(), nm))
            if v is None:
                raise Inconclusive('constant table %s not found' % nm)
            tabs.append(v)
        chk.ground('%s isogeny tables have lengths %s' % (gname, lens), tuple(len(t.f) for t in tabs) == lens, str([len(t.f) for t in tabs]))
        tables[gname] = tabs
        chk.add_executor(ex0)
    ground_constants(ctx, tables)
    chk.bounds = {'inputs': 'all Jacobian triples over any commutative ring; all coefficient values (symbolic tables) for the structure; exact arithmetic on the real constants',
                  'loops': 'table lengths concrete (12,11,16,16) / (4,3,4,4), loops fully executed'}
    chk.assumptions += ['a non-constant rational map between elliptic curves that sends O to O is a group homomorphism (Silverman III.4.8): additivity is not a solver query',
                        'Fq / Fq2 are commutative rings (C08/C09)']
    chk.trusted += ['rustc MIR printer', 'mirsym', 'z3']
    chk.discharge()
    ids.settle()


def _fq(v):
    return ref.from_mont(sum(x << (64 * i) for i, x in enumerate(_const_limbs(v))))


def ground_constants(ctx, tables):
    chk = ctx.chk
    q = ref.Q
    # ---- G1: polynomials over Fq
    xn, xd, yn, yd = [[_fq(c) for c in t.f] for t in tables['G1']]

    def pmul(a, b):
        r = [0] * (len(a) + len(b) - 1)
        for i, u in enumerate(a):
            if u:
                for j, v in enumerate(b):
                    r[i + j] = (r[i + j] + u * v) % q
        return r

    def padd(a, b):
        n = max(len(a), len(b))
        return [((a[i] if i < len(a) else 0) + (b[i] if i < len(b) else 0)) % q for i in range(n)]

    def trim(a):
        while a and a[-1] == 0:
            a = a[:-1]
        return a
    g = [ref.E1P_B, ref.E1P_A, 0, 1]          # x^3 + A'x + B'
    lhs = pmul(pmul(pmul(yn, yn), g), pmul(pmul(xd, xd), xd))
    rhs = pmul(padd(pmul(pmul(xn, xn), xn), [4 * c % q for c in pmul(pmul(xd, xd), xd)]), pmul(yd, yd))
    chk.ground("G1: ynum^2 (x^3 + A'x + B') xden^3 = (xnum^3 + 4 xden^3) yden^2 as polynomials over Fq (image lies on y^2 = x^3 + 4 for every x)",
               trim(lhs) == trim(rhs), 'degrees %d / %d' % (len(trim(lhs)), len(trim(rhs))))
    chk.ground('G1: xden and yden are monic of degree 10 / 15, xnum / ynum have degree 11 / 15', xd[-1] == 1 and yd[-1] == 1 and xn[-1] != 0 and yn[-1] != 0)
    # degree-11 isogeny: the kernel polynomial: yden = xden-related: yden has the roots of xden (kernel x-coordinates): xden | yden^2
    # ---- G2: polynomials over Fq2
    t2 = [[tuple(_fq(c) for c in e.f) for e in t.f] for t in tables['G2']]
    xn2, xd2, yn2, yd2 = t2

    def pmul2(a, b):
        r = [(0, 0)] * (len(a) + len(b) - 1)
        for i, u in enumerate(a):
            for j, v in enumerate(b):
                r[i + j] = ref.f2_add(r[i + j], ref.f2_mul(u, v))
        return r

    def padd2(a, b):
        n = max(len(a), len(b))
        return [ref.f2_add(a[i] if i < len(a) else (0, 0), b[i] if i < len(b) else (0, 0)) for i in range(n)]

    def trim2(a):
        while a and a[-1] == (0, 0):
            a = a[:-1]
        return a
    g2 = [ref.E2P_B, ref.E2P_A, (0, 0), (1, 0)]
    xd3 = pmul2(pmul2(xd2, xd2), xd2)
    lhs = pmul2(pmul2(pmul2(yn2, yn2), g2), xd3)
    rhs = pmul2(padd2(pmul2(pmul2(xn2, xn2), xn2), [ref.f2_mul((4, 4), c) for c in xd3]), pmul2(yd2, yd2))
    chk.ground("G2: ynum^2 (x^3 + A'x + B') xden^3 = (xnum^3 + 4(1+u) xden^3) yden^2 as polynomials over Fq2", trim2(lhs) == trim2(rhs),
               'degrees %d / %d' % (len(trim2(lhs)), len(trim2(rhs))))
    chk.ground('G2: xden and yden monic of degree 2 / 3', xd2[-1] == (1, 0) and yd2[-1] == (1, 0))
    for g_ in chk.grounds:
        if not g_[1]:
            chk.ground_handled = getattr(chk, 'ground_handled', {})
            chk.ground_handled[g_[0]] = True
            ctx.violation('isogeny-constants:' + g_[0][:30], 'isogeny constant table does not define a map onto the target curve: %s (%s)' % (g_[0], g_[2]),
                          {'fact': g_[0], 'detail': g_[2]})


def replay(ctx, path):
    run(ctx)
    return 1 if ctx.chk.violations else 0
