"""C08  Fq and Fr are exactly the integers modulo q and r (partial; see level_note).

K-bits: Kani over the real FqRepr/FrRepr integer ops and the non-multiplicative Fq/Fr ops, all limb values.
S-lia: Montgomery mul_assign / square / mont_reduce / into_repr / from_repr as linear-integer obligations over the
limb equations of the real MIR (separate module c08_mont).  Ground: Montgomery constants."""
from . import kani_common as K
from . import common as C


def run(ctx):
    chk = ctx.chk
    ctx.level = 'other'
    ctx.explanation = ('Kani/CBMC bounded model checking of the derive-generated limb code against u128 carry-chain references for all limb values; '
                       'linear-integer SMT obligations for the Montgomery multiplication extracted from MIR; exact-integer ground facts for the constants')
    only = getattr(ctx, 'only', None)
    if not only or 'S' in only:
        from . import c08_mont
        c08_mont.run_part(ctx)
    if not only or 'K' in only:
        K.run_harnesses(ctx, 'c08')
    chk.assumptions += ['outside the claim: inverse (binary Euclid with data-dependent trip count), pow / sqrt / legendre as loops over 381-bit data '
                        '(derive-generated in ff_derive, not in this repository); their repo-side inputs (modulus, generator, root-of-unity literals) are ground-checked']
    chk.trusted += ['Kani 0.68 / CBMC 6.11 / CaDiCaL', 'rustc MIR printer', 'mirsym', 'z3']
    for k in chk.kani:
        if k['status'] == 'FAILED':
            k['handled'] = True
            ctx.violation('field-limbs:' + k['harness'], 'Kani found a counterexample in %s: %s' % (k['harness'], '; '.join(k.get('failed_checks', [])[:3])),
                          {'harness': k['harness'], 'failed_checks': k.get('failed_checks'), 'how': 'cargo kani --harness %s -Z concrete-playback --concrete-playback=print' % k['harness']})


def replay(ctx, path):
    run(ctx)
    return 1 if ctx.chk.violations else 0
