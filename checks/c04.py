"""C04  point decoding accepts exactly canonical encodings of subgroup points.

K-bits: the four into_affine_unchecked + four into_affine decoders with every input byte symbolic, against an independent
decision list (flags -> infinity/sort -> coordinate range -> curve -> subgroup), square-root and subgroup oracles arbitrary.
S-ring: is_on_curve / get_point_from_x from MIR: curve equation y^2 = x^3 + B with the crate's B, root selection.
S-exp: the subgroup test multiplies by exactly r."""
import z3
from mirsym import ref, models
from mirsym.sym import State, FE, GE, Agg, Enum, Ref, BV, Inconclusive, UNIT
from mirsym.models import deref, _const_limbs, opt_sym
from . import common as C
from . import kani_common as K


def s_part(ctx):
    chk = ctx.chk
    ids = C.Identities(ctx, 'decoding')
    for gname, aff, base, leaf, bwant in [('G1', 'ec::g1::G1Affine', 'fq::Fq', r'fq::Fq', 4), ('G2', 'ec::g2::G2Affine', 'fq2::Fq2', r'fq2::Fq2', (4, 4))]:
        D = models.RingDomain(leaf, gname + 'F')
        LT = z3.Function('lt_' + gname, z3.IntSort(), z3.IntSort(), z3.BoolSort())
        sq = {}

        def h_sqrt(ex, st, m, a, D=D, sq=sq):
            x = D.coerce(deref(ex, st, a[0]))
            s = D.fresh('sqrt')
            ok = z3.Bool('%s_has_root' % D.name)
            sq['arg'], sq['root'], sq['ok'] = x.e, s, ok
            return opt_sym(ok, FE(x.ty, s))

        def h_lt(ex, st, m, a, D=D, LT=LT):
            x, y = D.coerce(deref(ex, st, a[0])), D.coerce(deref(ex, st, a[1]))
            return LT(C.zi(x.e), C.zi(y.e))
        bconst = {}

        def h_b(ex, st, m, a, base=base, bconst=bconst):
            return NotImplemented
        extra = [(r'<' + leaf + r' as (?:ff::)?SqrtField>::sqrt', h_sqrt), (r'<' + leaf + r' as PartialOrd>::lt', h_lt)]
        ex = C.new_executor(ctx, D.models(), extra_models=extra)
        if gname == 'G1':
            D.install(ex)
        else:
            # Fq2 constants (B = Fq2{B_COEFF, B_COEFF}) as symbols of the abstract Fq2
            consts2 = {}

            def hook(v, consts2=consts2):
                l0, l1 = _const_limbs(v.f[0]), _const_limbs(v.f[1])
                if l0 is None or l1 is None:
                    return None
                key = (tuple(l0), tuple(l1))
                if key not in consts2:
                    consts2[key] = (z3.Int('G2F_k%d' % len(consts2)), tuple(ref.from_mont(sum(x << (64 * i) for i, x in enumerate(l))) for l in (l0, l1)))
                return FE('fq2::Fq2', consts2[key][0])
            ex.add_adt_hook(r'fq2::Fq2', hook)
        chk.axioms += [D.isz(z3.IntVal(0)), z3.Not(D.isz(z3.IntVal(1)))]
        x, y = z3.Int('x'), z3.Int('y')
        inf = z3.Bool('inf')
        st = State()
        p = ex.alloc(st, Agg(aff, (FE(base, x), FE(base, y), inf)))
        fn = [f for f in ex.fns_named('is_on_curve') if f.name.startswith('ec::%s::' % gname.lower())]
        if len(fn) != 1:
            raise Inconclusive('is_on_curve body not found')
        r = ex.call_fn(st, fn[0], [p], {})
        bsym = ex.call(st, '%s::get_coeff_b' % aff, []) if False else None
        fb = [f for f in ex.fns_named('get_coeff_b') if f.name.startswith('ec::%s::' % gname.lower())][0]
        bval = ex.call_fn(State(), fb, [], {})
        B = bval.e if isinstance(bval, FE) else None
        if B is None:
            raise Inconclusive('curve coefficient is not a leaf constant: %r' % (bval,))
        chk.must_unsat('%s.is_on_curve <=> infinity or y^2 = x^3 + B' % gname, z3.Xor(C.mk(r), z3.Or(inf, D.iszero(y * y - (x * x * x + B)))), group='case-structure')
        # value of B
        if gname == 'G1':
            bv = [ref.from_mont(n) for (s, n) in D.opaque.values() if s.eq(B)]
            chk.ground('G1 curve coefficient B = 4', bv == [4], str(bv))
        else:
            bv = [v for (s, v) in consts2.values() if s.eq(B)]
            chk.ground('G2 curve coefficient B = 4(1+u)', bv == [(4, 4)], str(bv))
        # get_point_from_x
        g = z3.Bool('greatest')
        fn = [f for f in ex.fns_named('get_point_from_x') if f.name.startswith('ec::%s::' % gname.lower())][0]
        st = State()
        r = ex.call_fn(st, fn, [FE(base, x), g], {})
        if 'arg' not in sq:
            raise Inconclusive('get_point_from_x did not call sqrt')
        ids.ident('%s.get_point_from_x takes the root of x^3 + B' % gname, [sq['arg']], [x * x * x + B], 'decoding')
        chk.must_unsat('%s.get_point_from_x is None exactly when no root exists' % gname, z3.Xor(r.disc == 1, sq['ok']), group='case-structure')
        pt = r.payload['Some'][0]
        s_ = sq['root']
        want_y = z3.If(z3.Xor(LT(s_, -s_), g), s_, -s_)
        ids.ident('%s.get_point_from_x returns (x, the root selected by the flag: larger root iff greatest)' % gname, [pt.f[0].e, pt.f[1].e], [x, want_y], 'decoding')
        chk.must_unsat('%s.get_point_from_x result is finite' % gname, C.mk(pt.f[2]) if not isinstance(pt.f[2], bool) else z3.BoolVal(pt.f[2]), group='case-structure')
        chk.add_executor(ex)
    return ids


def subgroup_multiplier(ctx):
    """is_in_correct_subgroup_assuming_on_curve multiplies by exactly r = Fr::char() and tests for the identity"""
    chk = ctx.chk
    for gname, proj, aff in [('G1', 'ec::g1::G1', 'ec::g1::G1Affine'), ('G2', 'ec::g2::G2', 'ec::g2::G2Affine')]:
        D = models.GroupDomain(proj, aff).setup(1, proj, aff)
        seen = {}

        def h_is_zero(ex, st, m, a, seen=seen):
            v = deref(ex, st, a[0])
            seen['e'] = v.c[0]
            return z3.Bool('is_identity')
        pp = proj.replace('::', r'::')
        ex = C.new_executor(ctx, [(r'<' + pp + r' as CurveProjective>::is_zero', h_is_zero)] + D.models(),
                            generics_hint={'mul': {'S': 'fr::FrRepr'}, 'mul_bits': {'S': 'fr::FrRepr'}})
        fn = [f for f in ex.fns_named('is_in_correct_subgroup_assuming_on_curve') if f.name.startswith('ec::%s::' % gname.lower())][0]
        st = State()
        p = ex.alloc(st, GE(aff, [1]))
        r = ex.call_fn(st, fn, [p], {})
        chk.ground('%s subgroup test computes [r]P with r = 0x73eda753...00000001 and returns whether it is the identity' % gname,
                   seen.get('e') == ref.R_ORDER and str(r) == 'is_identity', hex(seen.get('e', 0)))
        chk.add_executor(ex)


def run(ctx):
    chk = ctx.chk
    ctx.explanation = ('Kani/CBMC over the real decoders with all input bytes symbolic against an independent decision list; curve equation and root '
                       'selection as ring-domain identities from MIR; subgroup multiplier in the exponent domain')
    only = getattr(ctx, 'only', None)
    ids = None
    if not only or 'S' in only:
        ids = s_part(ctx)
        subgroup_multiplier(ctx)
        chk.discharge()
        ids.settle()
        C.settle_structural(ctx, ('case-structure',), 'decoding')
    if not only or 'K' in only:
        K.run_harnesses(ctx, 'c04')
        K.report_failures(ctx, 'decoding')
    chk.assumptions += ['Kani harness stubs: Fq::mul_assign / square no-ops and into_repr identity (an Fq holds its canonical integer; C08 covers the real code), '
                        'sqrt and in_subgroup arbitrary oracles, alloc::fmt::format empty',
                        'sqrt returns a root whenever one exists (C18 scope note)', 'category of CoordinateDecodingError is checked, not which coordinate label is reported']
    chk.bounds.update({'bytes': 'all 2^384 / 2^768 / 2^1536 inputs (no bound)', 'unwind': '98 / 50 / 194 (array loops and memcmp), unwinding assertions on'})
    chk.trusted += ['Kani 0.68 / CBMC 6.11', 'rustc MIR printer', 'mirsym', 'z3']
    for g_ in chk.grounds:
        if not g_[1]:
            chk.ground_handled = getattr(chk, 'ground_handled', {})
            chk.ground_handled[g_[0]] = True
            ctx.violation('decoding-ground:' + g_[0][:40], 'fact fails: %s (%s)' % (g_[0], g_[2]), {'fact': g_[0], 'detail': g_[2]})


def replay(ctx, path):
    run(ctx)
    return 1 if ctx.chk.violations else 0
