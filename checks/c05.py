"""C05  point encoding round-trips and is the canonical ZCash wire format.

K-bits: from_affine / into_compressed / into_uncompressed for G1 and G2 with arbitrary coordinates below q against an
independent byte-level encoder; decode(encode(P)) = P; (in the C04 harnesses) encode(decode(bytes)) = bytes for every
accepted byte string, which gives injectivity and non-malleability."""
from . import kani_common as K


def run(ctx):
    chk = ctx.chk
    ctx.level = 'model_checking'
    ctx.explanation = ('Kani/CBMC bounded model checking of the real encoders (and decoders for the round trips) with all coordinate limbs / bytes symbolic')
    # the re-encoding direction (encode(decode(bytes)) = bytes) lives in the decoder harnesses registered under c05 as well
    K.run_harnesses(ctx, 'c05')
    K.report_failures(ctx, 'encoding')
    chk.assumptions += ['stubs as in C04: Fq::mul_assign / square no-ops, into_repr identity (so Ord for Fq is integer order; Ord for Fq2 and negate are the real code), '
                        'sqrt oracle returns either root of the encoded y', 'y != 0 (no 2-torsion on these curves)']
    chk.bounds.update({'coordinates': 'all values below q (6 x 64 symbolic bits each); all accepted byte strings', 'unwind': '98 / 194 with unwinding assertions'})
    chk.trusted += ['Kani 0.68 / CBMC 6.11']


def replay(ctx, path):
    run(ctx)
    return 1 if ctx.chk.violations else 0
