"""C15  simplified SWU maps every field element onto the isogenous curve, per RFC 9380 / Wahby-Boneh 2019.

S-ring: osswu_help (generic) and both osswu_map impls are executed from MIR over an abstract commutative ring with the
curve constants as symbols and the two addition chains as uninterpreted power functions; z3 shows, per path, that the
output is the specified Jacobian triple and that it satisfies Y^2 = X^3 + A' X Z^4 + B' Z^6 *given the tested
hypothesis of that path* (identity with explicit cofactor).  S-exp: the chains raise to exactly (q-3)/4 and (q^2-9)/16.
Ground: constants equal the RFC values / satisfy their defining equations."""
import z3
from mirsym import ref, models
from mirsym.sym import State, FE, GE, Agg, Enum, Ref, BV, Inconclusive, UNIT
from mirsym.models import deref, _const_limbs
from . import common as C


def helper(ctx, ids):
    chk = ctx.chk
    ex, D = C.ring_executor(ctx, ty_pat=r'fq::Fq', name='F', generics_hint={'osswu_help': {'F': 'fq::Fq'}})

    def fe(n):
        return FE('fq::Fq', z3.Int(n))
    u, xi, A, B = fe('u'), fe('xi'), fe('A'), fe('B')
    st = State()
    refs = [ex.alloc(st, v) for v in (u, xi, A, B)]
    r = ex.call(st, 'osswu_help::<fq::Fq>', refs)
    usq, xi_usq, xi2_u4, x0n, x0d, gn, gd = [v.e for v in r.f]
    U, XI, a, b = u.e, xi.e, A.e, B.e
    nd = XI * XI * U * U * U * U + XI * U * U
    exc = D.iszero(nd)
    ids.ident('osswu_help: usq, xi_usq, xi2_u4 = u^2, xi u^2, xi^2 u^4', [usq, xi_usq, xi2_u4], [U * U, XI * U * U, XI * XI * U * U * U * U], 'sswu-helper')
    ids.ident('osswu_help: x0 = -B(1 + nd)/(A nd), nd = xi^2 u^4 + xi u^2 (generic case)', [x0n, x0d], [b * (1 + nd), -a * nd], 'sswu-helper', cond=z3.Not(exc))
    ids.ident('osswu_help: exceptional case nd = 0 gives x0 = B/(xi A)', [x0n, x0d], [b * (1 + nd), a * XI], 'sswu-helper', cond=exc)
    ids.ident('osswu_help: g(x0) = (x0n^3 + A x0n x0d^2 + B x0d^3) / x0d^3', [gn, gd], [x0n * x0n * x0n + a * x0n * x0d * x0d + b * x0d * x0d * x0d, x0d * x0d * x0d], 'sswu-helper')
    # key identity of the SWU construction (used for the second candidate): g(xi u^2 x0) = xi^3 u^6 g(x0), denominators cleared
    n_, d_ = b * (1 + nd), -a * nd
    x1n = XI * U * U * n_
    ids.ident('SWU key identity: x1n^3 + A x1n d^2 + B d^3 = xi^3 u^6 (n^3 + A n d^2 + B d^3) for x1n = xi u^2 n, n/d = x0 (generic case)',
              [x1n * x1n * x1n + a * x1n * d_ * d_ + b * d_ * d_ * d_], [XI * XI * XI * U * U * U * U * U * U * (n_ * n_ * n_ + a * n_ * d_ * d_ + b * d_ * d_ * d_)], 'sswu-helper')
    # on-curve lemma over fresh symbols: a Jacobian triple of the shape the maps return, (n d, y d^3, d), satisfies
    #   Y^2 - (X^3 + A X Z^4 + B Z^6) = d^3 (y^2 d^3 - (n^3 + A n d^2 + B d^3))
    # so it is on the curve as soon as y^2 V = U for V = d^3, U = n^3 + A n d^2 + B d^3 -- which is the condition each path TESTS
    # (first candidates: U = g(x0) numerator; second candidates: n = xi u^2 x0n and U = xi^3 u^6 g(x0) numerator by the key identity)
    n2, d2, y2 = z3.Int('n'), z3.Int('d'), z3.Int('y')
    Xs, Ys, Zs = n2 * d2, y2 * d2 * d2 * d2, d2
    ids.ident('on-curve lemma for outputs of shape (n d, y d^3, d)', [Ys * Ys - (Xs * Xs * Xs + a * Xs * Zs * Zs * Zs * Zs + b * Zs * Zs * Zs * Zs * Zs * Zs)],
              [d2 * d2 * d2 * (y2 * y2 * d2 * d2 * d2 - (n2 * n2 * n2 + a * n2 * d2 * d2 + b * d2 * d2 * d2))], 'sswu-on-curve')
    # G1 second candidate has no test: y1 = u^3 c S with c^2 V = -U (Euler, trusted) and S^2 = -xi^3 (ground):
    #   y1^2 V - xi^3 u^6 U = u^6 (S^2 (c^2 V + U) - U (S^2 + xi^3))
    cc, Ss, Us, Vs = z3.Int('c'), z3.Int('S'), z3.Int('Ug'), z3.Int('Vg')
    y1s = U * U * U * cc * Ss
    ids.ident('G1 second candidate: y1^2 V - xi^3 u^6 U = u^6 (S^2 (c^2 V + U) - U (S^2 + xi^3))', [y1s * y1s * Vs - XI * XI * XI * U * U * U * U * U * U * Us],
              [U * U * U * U * U * U * (Ss * Ss * (cc * cc * Vs + Us) - Us * (Ss * Ss + XI * XI * XI))], 'sswu-on-curve')
    chk.add_executor(ex)


def chains(ctx):
    chk = ctx.chk
    q = ref.Q
    for nm, ty, deg, want in [('chain_pm3div4', 'fq::Fq', 1, (q - 3) // 4), ('chain_p2m9div16', 'fq2::Fq2', 2, (q * q - 9) // 16)]:
        D = models.UnitGroupDomain(q, ty=ty, degree=deg)
        ex = C.new_executor(ctx, D.models())
        st = State()
        out, inp = ex.alloc(st, D.mk(0)), ex.alloc(st, D.mk(1))
        ex.call(st, nm, [out, inp])
        e = ex.load(st, out).c[0]
        chk.must_unsat('%s raises to exactly %s (as an exponent modulo |%s^*|)' % (nm, '(q-3)/4' if deg == 1 else '(q^2-9)/16', ty),
                       (z3.IntVal(e) - z3.IntVal(want)) % z3.IntVal(q ** deg - 1) != 0, group='chain-exponent')
        chk.extra[nm + '_links'] = D.ops
        chk.add_executor(ex)
    chk.ground('(q-3)/4 and (q^2-9)/16 are integers (q = 3 mod 4, q^2 = 9 mod 16)', q % 4 == 3 and (q * q) % 16 == 9)


def sgn_models(ty_pat, S):
    def h_sgn0(ex, st, m, a):
        x = deref(ex, st, a[0])
        if not isinstance(x, FE):
            return NotImplemented
        return Enum('Sgn0Result', z3.If(S(C.zi(x.e)), z3.BitVecVal(1, 64), z3.BitVecVal(0, 64)), {'NonNegative': (), 'Negative': ()})
    return [(r'<' + ty_pat + r' as (?:signum::)?Signum0>::sgn0', h_sgn0)]


def g1_map(ctx, ids):
    chk = ctx.chk
    P = z3.Function('pow_qm3div4', z3.IntSort(), z3.IntSort())
    S = z3.Function('sgn0_is_negative', z3.IntSort(), z3.BoolSort())

    def h_chain(ex, st, m, a):
        x = deref(ex, st, a[1])
        ex.store(st, a[0], FE(x.ty, P(C.zi(x.e))))
        return UNIT
    D = models.RingDomain(r'fq::Fq', 'F1')
    ex = C.new_executor(ctx, D.models(), extra_models=[(r'(?:\w+::)*chain_pm3div4', h_chain)] + sgn_models(r'fq::Fq', S))
    D.install(ex)
    chk.axioms += [D.isz(z3.IntVal(0)), z3.Not(D.isz(z3.IntVal(1)))]
    u = z3.Int('u')
    st = State()
    ru = ex.alloc(st, FE('fq::Fq', u))
    nob = len(ex.obligations)
    out = ex.call(st, '<ec::g1::G1 as osswu_map::OSSWUMap>::osswu_map', [ru])
    X, Y, Z = [v.e for v in out.f]
    # constants as symbols (values checked as ground facts below)
    st0 = State()
    cs = {}
    for nm in ('ELLP_A', 'ELLP_B', 'XI'):
        cs[nm] = ex.named_const(st0, 'osswu_map::g1::' + nm).e
    cs['S'] = ex.named_const(st0, 'SQRT_M_XI_CUBED').e
    a, b, xi, Sq = cs['ELLP_A'], cs['ELLP_B'], cs['XI'], cs['S']
    nd = xi * xi * u * u * u * u + xi * u * u
    exc = D.iszero(nd)
    n_ = b * (1 + nd)
    d_ = z3.If(exc, a * xi, -a * nd)
    U = n_ * n_ * n_ + a * n_ * d_ * d_ + b * d_ * d_ * d_
    V = d_ * d_ * d_
    c = U * V * P(U * V * V * V)
    sq = D.iszero(c * c * V - U)
    pre = 'G1.osswu_map: '
    # branch 1: g(x0) square
    y = c
    ysel = z3.If(z3.Xor(S(y), S(u)), -y, y)
    ids.ident(pre + 'g(x0) square: (X,Y,Z) = (x0n x0d, +-c x0d^3, x0d), c = U V (U V^3)^((q-3)/4), sign: sgn0(y) = sgn0(u)', [X, Y, Z], [n_ * d_, ysel * V, d_], 'sswu-map', cond=sq)
    # branch 2: second candidate
    y1 = u * u * u * c * Sq
    y1sel = z3.If(z3.Xor(S(y1), S(u)), -y1, y1)
    x1n = n_ * xi * u * u
    ids.ident(pre + 'g(x0) non-square: (X,Y,Z) = (xi u^2 x0n x0d, +-u^3 c sqrt(-xi^3) x0d^3, x0d)', [X, Y, Z], [x1n * d_, y1sel * V, d_], 'sswu-map', cond=z3.Not(sq))
    chk.must_unsat_any(pre + 'no panic', [o.formula() for o in ex.obligations[nob:]])
    # ground facts
    val = {str(s.decl().name()): ref.from_mont(n) for (s, n) in D.opaque.values()}

    def v(t):
        return C.eval_int(t, val, ref.Q)
    chk.ground("G1 SSWU constants: A' , B' equal the RFC 9380 8.8.1 values, Z = xi = 11", v(a) == ref.E1P_A and v(b) == ref.E1P_B and v(xi) == 11, hex(v(xi)))
    chk.ground('G1 SSWU: SQRT_M_XI_CUBED^2 = -xi^3', (v(Sq) * v(Sq) + v(xi) ** 3) % ref.Q == 0)
    chk.ground('G1 SSWU: xi = 11 is a non-square in Fq, A\' B\' != 0', pow(11, (ref.Q - 1) // 2, ref.Q) == ref.Q - 1 and v(a) * v(b) % ref.Q != 0)
    chk.add_executor(ex)


def g2_map(ctx, ids):
    chk = ctx.chk
    P = z3.Function('pow_q2m9div16', z3.IntSort(), z3.IntSort())
    S = z3.Function('sgn0_is_negative2', z3.IntSort(), z3.BoolSort())

    def h_chain(ex, st, m, a):
        x = deref(ex, st, a[1])
        ex.store(st, a[0], FE(x.ty, P(C.zi(x.e))))
        return UNIT
    D = models.RingDomain(r'fq2::Fq2', 'F2')
    # components of an abstract Fq2 value (code may look at u.c0 / u.c1 directly): uninterpreted projections into an abstract Fq,
    # tied to the element-level sgn0 by the DEFINITION of Fq2::sgn0 (decided bit-precisely in C18):
    #   sgn0(a) = sgn0(c0)  if c0 != 0  else sgn0(c1)
    D1 = models.RingDomain(r'fq::Fq', 'F2c')
    S1 = z3.Function('sgn0_is_negative_Fq', z3.IntSort(), z3.BoolSort())
    CMP = [z3.Function('c0_of', z3.IntSort(), z3.IntSort()), z3.Function('c1_of', z3.IntSort(), z3.IntSort())]
    ex = C.new_executor(ctx, D.models() + D1.models(), extra_models=[(r'(?:\w+::)*chain_p2m9div16', h_chain)] + sgn_models(r'fq2::Fq2', S) + sgn_models(r'fq::Fq', S1))
    chk.axioms += [D.isz(z3.IntVal(0)), z3.Not(D.isz(z3.IntVal(1)))]
    projected = []

    def fe_field(v, i):
        if v.ty == 'fq2::Fq2' and i in (0, 1):
            projected.append(C.zi(v.e))
            return FE('fq::Fq', CMP[i](C.zi(v.e)))
        return None
    ex.fe_field = fe_field
    # Fq2 constants become symbols of the abstract ring: install a hook for the two-level struct Fq2 { c0: Fq(..), c1: Fq(..) }
    consts2 = {}

    def hook(v):
        l0, l1 = _const_limbs(v.f[0]), _const_limbs(v.f[1])
        if l0 is None or l1 is None:
            return None
        key = (tuple(l0), tuple(l1))
        if key not in consts2:
            sym = z3.Int('F2_k%d' % len(consts2))
            consts2[key] = (sym, (ref.from_mont(sum(x << (64 * i) for i, x in enumerate(l0))), ref.from_mont(sum(x << (64 * i) for i, x in enumerate(l1)))))
        return FE('fq2::Fq2', consts2[key][0])
    ex.add_adt_hook(r'fq2::Fq2', hook)
    u = z3.Int('u')
    st = State()
    ru = ex.alloc(st, FE('fq2::Fq2', u))
    nob = len(ex.obligations)
    out = ex.call(st, '<ec::g2::G2 as osswu_map::OSSWUMap>::osswu_map', [ru])
    X, Y, Z = [v.e for v in out.f]
    for t_ in [u] + projected:
        chk.axioms.append(S(t_) == z3.If(D1.iszero(CMP[0](t_)), S1(CMP[1](t_)), S1(CMP[0](t_))))
    st0 = State()
    a = ex.named_const(st0, 'osswu_map::g2::ELLP_A').e
    b = ex.named_const(st0, 'osswu_map::g2::ELLP_B').e
    xi = ex.named_const(st0, 'osswu_map::g2::XI').e
    roots = [v.e for v in ex.named_const(st0, 'ROOTS_OF_UNITY').f]
    etas = [v.e for v in ex.named_const(st0, 'ETAS').f]
    nd = xi * xi * u * u * u * u + xi * u * u
    exc = D.iszero(nd)
    n_ = b * (1 + nd)
    d_ = z3.If(exc, a * xi, -a * nd)
    U = n_ * n_ * n_ + a * n_ * d_ * d_ + b * d_ * d_ * d_
    V = d_ * d_ * d_
    V2 = V * V
    V7 = V2 * V2 * V2 * V
    c = U * V7 * P(U * V7 * V2 * V2 * V2 * V2)
    pre = 'G2.osswu_map: '
    curve = lambda X_, Y_, Z_: Y_ * Y_ - (X_ * X_ * X_ + a * X_ * Z_ * Z_ * Z_ * Z_ + b * Z_ * Z_ * Z_ * Z_ * Z_ * Z_)
    none_before = z3.BoolVal(True)
    for i, r_ in enumerate(roots):
        y0 = r_ * c
        hit = D.iszero(y0 * y0 * V - U)
        cond = z3.And(none_before, hit)
        ysel = z3.If(z3.Xor(S(y0), S(u)), -y0, y0)
        ids.ident(pre + 'first candidate, root of unity #%d: (X,Y,Z) = (x0n x0d, +-r c x0d^3, x0d)' % i, [X, Y, Z], [n_ * d_, ysel * V, d_], 'sswu-map', cond=cond)
        none_before = z3.And(none_before, z3.Not(hit))
    x1n = n_ * xi * u * u
    g1n = xi * xi * xi * u * u * u * u * u * u * U
    c1 = c * u * u * u
    for j, e_ in enumerate(etas):
        y1 = e_ * c1
        hit = D.iszero(y1 * y1 * V - g1n)
        cond = z3.And(none_before, hit)
        ysel = z3.If(z3.Xor(S(y1), S(u)), -y1, y1)
        ids.ident(pre + 'second candidate, eta #%d: (X,Y,Z) = (xi u^2 x0n x0d, +-eta u^3 c x0d^3, x0d)' % j, [X, Y, Z], [x1n * d_, ysel * V, d_], 'sswu-map', cond=cond)
        none_before = z3.And(none_before, z3.Not(hit))
    # the only panic is the terminal one (none of the 4 + 4 candidates is a root): number theory, documented as trusted
    others = [o for o in ex.obligations[nob:] if 'Failed to find square root' not in o.msg]
    term = [o for o in ex.obligations[nob:] if 'Failed to find square root' in o.msg]
    chk.must_unsat_any(pre + 'no panic other than the terminal one', [o.formula() for o in others])
    chk.shape(pre + 'terminal panic guarded by exactly the eight failed tests', len(term) == 1, '%d terminal panic sites' % len(term))
    if term:
        chk.must_unsat(pre + 'terminal panic is reached only when all 4 + 4 tests fail', z3.And(term[0].formula(), z3.Not(none_before)), group='case-structure')
    # ground facts about the constants
    val2 = {str(s.decl().name()): v for (s, v) in consts2.values()}

    def ev(t):
        nm = str(t.decl().name())
        return val2[nm]
    A2, B2, XI2 = ev(a), ev(b), ev(xi)
    chk.ground("G2 SSWU constants: A' = 240 I, B' = 1012 (1 + I), Z = xi = -(2 + I)", A2 == ref.E2P_A and B2 == ref.E2P_B and XI2 == ref.SSWU_Z2, str(XI2)[:80])
    r_vals = [ev(r_) for r_ in roots]
    chk.ground('G2 SSWU: ROOTS_OF_UNITY are four distinct square roots of the 4th roots of unity (r^8 = 1, r^2 in {1, I, -1, -I} up to order)',
               len(set(r_vals)) == 4 and all(ref.f2_pow(r_, 8) == ref.F2_ONE for r_ in r_vals) and len(set(ref.f2_sqr(r_) for r_ in r_vals)) == 4)
    e_vals = [ev(e_) for e_ in etas]
    xi3 = ref.f2_mul(XI2, ref.f2_sqr(XI2))
    # eta_j^2 * (root of unity) = xi^3-related: eta^2 = xi^3 * (8th-root-of-unity factor): check eta^16 = xi^24 and the four eta^2/xi^3 are distinct 4th... roots
    ratios = [ref.f2_mul(ref.f2_sqr(e_), ref.f2_inv(xi3)) for e_ in e_vals]
    chk.ground('G2 SSWU: ETAS^2 / xi^3 are four distinct elements whose 4th power is -1 (eta = sqrt(xi^3 * primitive 8th root of unity))',
               len(set(ratios)) == 4 and all(ref.f2_pow(r_, 4) == (ref.Q - 1, 0) for r_ in ratios), str([ref.f2_pow(r_, 4) == (ref.Q - 1, 0) for r_ in ratios]))
    chk.ground('G2 SSWU: xi is a non-square in Fq2', ref.f2_pow(XI2, (ref.Q ** 2 - 1) // 2) != ref.F2_ONE)
    chk.add_executor(ex)


def native_differential(ctx):
    """the real osswu_map (both builds of the native replay binary) against an independent affine transcription of RFC 9380 6.6.2 on
    inputs chosen per branch class: 0, +-1, zero real part (odd / even imaginary part), zero imaginary part, the G1 exceptional root,
    seeded random ones.  A complement to the solver obligations (it also validates the translator end to end)."""
    import random
    from mirsym import load
    chk = ctx.chk
    q = ref.Q
    rnd = random.Random(ctx.seed * 31 + 5)
    u1 = [0, 1, q - 1, 2, 3, q - 2, 5, 11, rnd.randrange(q), rnd.randrange(q), rnd.randrange(q)]
    exc = ref.fq_sqrt((-pow(11, -1, q)) % q)       # 11^2 u^4 + 11 u^2 = 0  <=>  u^2 = -1/11
    if exc is not None:
        u1 += [exc, q - exc]
    u2 = [(0, 0), (1, 0), (q - 1, 0), (0, 1), (0, 2), (0, 3), (0, q - 2), (0, q - 1), (5, 0), (4, 0), (2, 7), (3, 7),
          (rnd.randrange(q), rnd.randrange(q)), (rnd.randrange(q), rnd.randrange(q)), (0, rnd.randrange(q) | 1), (0, rnd.randrange(q) & ~1), (rnd.randrange(q), 0)]
    cmds = ['g1_sswu %x' % u for u in u1] + ['g2_sswu %x %x' % u for u in u2]
    bad = {}
    for profile in ('release', 'dev'):
        n = load.Native(profile)
        try:
            outs = n.run(cmds)
        finally:
            n.close()
        for c, o in zip(cmds, outs):
            parts = o.split()
            try:
                if c.startswith('g1'):
                    X, Y, Z = [int(p_, 16) for p_ in parts]
                    got = ref.E1P.from_jac(X, Y, Z)
                    want = ref.sswu_fq(int(c.split()[1], 16))
                    oncurve = ref.E1P.on_curve(got)
                else:
                    v = [int(p_, 16) for p_ in parts]
                    got = ref.E2P.from_jac((v[0], v[1]), (v[2], v[3]), (v[4], v[5]))
                    uu = c.split()[1:]
                    want = ref.sswu_fq2((int(uu[0], 16), int(uu[1], 16)))
                    oncurve = ref.E2P.on_curve(got)
            except Exception as e:
                got, want, oncurve = 'unparseable: %s' % o[:60], None, False
            if got != want or not oncurve:
                bad.setdefault(c, {})[profile] = {'got': str(got)[:200], 'want': str(want)[:200], 'on_curve': oncurve}
    chk.extra['native_differential'] = {'inputs': len(cmds), 'profiles': ['release', 'dev'], 'failing': len(bad)}
    chk.ground('native osswu_map = RFC 9380 map_to_curve_simple_swu (independent affine transcription) on %d branch-class and seeded inputs, both builds' % len(cmds),
               not bad, str(list(bad.items())[:1])[:300])
    if bad:
        chk.ground_handled = getattr(chk, 'ground_handled', {})
        chk.ground_handled[chk.grounds[-1][0]] = True
        c0 = sorted(bad)[0]
        ctx.violation('sswu-native:' + c0.split()[0], 'osswu_map disagrees with RFC 9380 map_to_curve_simple_swu on %d inputs, e.g. %s -> %s' % (len(bad), c0, bad[c0]),
                      {'failing_inputs': bad, 'replay_cmd': 'build /verif/replay against /repo and feed: ' + c0})


def run(ctx):
    chk = ctx.chk
    ctx.explanation = ('ring-domain symbolic execution of osswu_help / osswu_map MIR with constants and addition chains abstracted; per-path '
                       'polynomial identities (output shape, on-curve with the cofactor of the tested hypothesis) by z3; exact exponents of '
                       'the chains; ground facts on the constants')
    ids = C.Identities(ctx, 'sswu')
    for part in (helper, chains, g1_map, g2_map):
        try:
            part(ctx, ids) if part is not chains else part(ctx)
        except Inconclusive as e:
            ctx.inconclusive('%s: encoder: %s' % (part.__name__, e))
    native_differential(ctx)
    chk.assumptions += ['sgn0(-y) != sgn0(y) for y != 0 (C18) so that negate_if yields sgn0(y) = sgn0(u)',
                        'number theory (trusted, cited WB19 section 4 / RFC 9380 F.2): when g(x0) is a non-square the second candidate is a root (G1: c^2 V = -U by '
                        'Euler; G2: one of the four etas matches) so the G2 terminal panic is unreachable; not a bounded query over Fq',
                        'Fq / Fq2 are fields (C08/C09)']
    chk.bounds = {'inputs': 'all u (symbolic over any commutative ring); every path of the 1+1 (G1) / 4+4 (G2) candidate selection', 'loops': 'candidate loops have 4 iterations, fully executed'}
    chk.trusted += ['rustc MIR printer', 'mirsym', 'z3']
    chk.discharge()
    ids.settle()
    C.settle_structural(ctx, ('case-structure', 'no-panic'), 'sswu')
    for o in chk.failed():
        if not o.handled and o.group == 'chain-exponent':
            o.handled = True
            ctx.violation('sswu-chain:' + o.name[:30], 'addition chain exponent wrong: ' + o.name, {'obligation': o.name})
    for g_ in chk.grounds:
        if not g_[1]:
            chk.ground_handled = getattr(chk, 'ground_handled', {})
            chk.ground_handled[g_[0]] = True
            ctx.violation('sswu-constants:' + g_[0][:40], 'SSWU constant fact fails: %s (%s)' % (g_[0], g_[2]), {'fact': g_[0], 'detail': g_[2]})


def replay(ctx, path):
    run(ctx)
    return 1 if ctx.chk.violations else 0
