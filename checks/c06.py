"""C06  hash_to_curve / encode_to_curve implement the RFC 9380 BLS12-381 suites.

S-euf: the MIR of the blanket HashToCurve impl is executed with hash_to_field and MapToCurve uninterpreted: hash_to_curve(msg,dst) =
map2_to_curve(u0,u1) with (u0,u1) = hash_to_field(msg,dst,2); encode_to_curve = map_to_curve(u0) with count 1; nothing else is read.
The RFC-level claim is then the conjunction C13 /\ C14 /\ C15 /\ C16 /\ C17.  As an end-to-end anchor the RFC 9380 appendix J known-answer
vectors are run natively (dev and release) through the real SHA-256 / SHAKE code."""
import z3
from mirsym import ref, load
from mirsym.sym import State, GE, Agg, Enum, Ref, BV, Inconclusive, UNIT, Opaque, LazySeq
from mirsym.models import deref
from . import common as C

RFC_VECTORS = [
    # (op, msg, dst, expected affine output)   RFC 9380 J.9.1, J.9.2, J.10.1
    ('g1_h2c_sha256', b'', b'QUUX-V01-CS02-with-BLS12381G1_XMD:SHA-256_SSWU_RO_',
     '052926add2207b76ca4fa57a8734416c8dc95e24501772c814278700eed6d1e4e8cf62d9c09db0fac349612b759e79a1 '
     '08ba738453bfed09cb546dbb0783dbb3a5f1f566ed67bb6be0e8c67e2e81a4cc68ee29813bb7994998f3eae0c9c6a265'),
    ('g1_h2c_sha256', b'abc', b'QUUX-V01-CS02-with-BLS12381G1_XMD:SHA-256_SSWU_RO_',
     '03567bc5ef9c690c2ab2ecdf6a96ef1c139cc0b2f284dca0a9a7943388a49a3aee664ba5379a7655d3c68900be2f6903 '
     '0b9c15f3fe6e5cf4211f346271d7b01c8f3b28be689c8429c85b67af215533311f0b8dfaaa154fa6b88176c229f2885d'),
    ('g1_e2c_sha256', b'', b'QUUX-V01-CS02-with-BLS12381G1_XMD:SHA-256_SSWU_NU_',
     '184bb665c37ff561a89ec2122dd343f20e0f4cbcaec84e3c3052ea81d1834e192c426074b02ed3dca4e7676ce4ce48ba '
     '04407b8d35af4dacc809927071fc0405218f1401a6d15af775810e4e460064bcc9468beeba82fdc751be70476c888bf3'),
    ('g2_h2c_sha256', b'', b'QUUX-V01-CS02-with-BLS12381G2_XMD:SHA-256_SSWU_RO_',
     '0141ebfbdca40eb85b87142e130ab689c673cf60f1a3e98d69335266f30d9b8d4ac44c1038e9dcdd5393faf5c41fb78a '
     '05cb8437535e20ecffaef7752baddf98034139c38452458baeefab379ba13dff5bf5dd71b72418717047f5b0f37da03d '
     '0503921d7f6a12805e72940b963c0cf3471c7b2a524950ca195d11062ee75ec076daf2d4bc358c4b190c0c98064fdd92 '
     '12424ac32561493f3fe3c260708a12b7c620e7be00099a974e259ddc7d1f6395c3c811cdd19f1e8dbf3e9ecfdcbab8d6'),
]


def composition(ctx):
    chk = ctx.chk
    Fld = z3.DeclareSort('FldElem')
    PtS = z3.DeclareSort('CurvePt')
    H2F = z3.Function('hash_to_field_elem', z3.IntSort(), z3.IntSort(), z3.IntSort(), z3.IntSort(), Fld)     # (msg, dst, count, index)
    MAP1 = z3.Function('map_to_curve', Fld, PtS)
    MAP2 = z3.Function('map2_to_curve', Fld, Fld, PtS)
    for gname, proj, base in [('G1', 'ec::g1::G1', 'fq::Fq'), ('G2', 'ec::g2::G2', 'fq2::Fq2')]:
        calls = []
        msg, dst = z3.Int('msg'), z3.Int('dst')

        def h_h2f(ex, st, m, a):
            mref, dref, cnt = a
            if not cnt.concrete:
                raise Inconclusive('symbolic element count')
            ms, ds = deref(ex, st, Ref(mref.addr, mref.path)), deref(ex, st, Ref(dref.addr, dref.path))
            while isinstance(ms, Ref):
                ms = deref(ex, st, ms)
            while isinstance(ds, Ref):
                ds = deref(ex, st, ds)
            calls.append(('hash_to_field', ms.what, ds.what, cnt.v))
            return Agg('Vec', [GE(base, [H2F(msg, dst, z3.IntVal(cnt.v), z3.IntVal(i))]) for i in range(cnt.v)])

        def h_map1(ex, st, m, a):
            u = deref(ex, st, a[0])
            calls.append(('map_to_curve',))
            return GE(proj, [MAP1(u.c[0])])

        def h_map2(ex, st, m, a):
            u0, u1 = deref(ex, st, a[0]), deref(ex, st, a[1])
            calls.append(('map2_to_curve',))
            return GE(proj, [MAP2(u0.c[0], u1.c[0])])

        def h_asref(ex, st, m, a):
            inner = deref(ex, st, a[0])
            return inner if isinstance(inner, Ref) else a[0]
        extra = [(r'(?:hash_to_field::)?hash_to_field::<.+>', h_h2f), (r'<.+ as (?:map_to_curve::)?MapToCurve<.+>>::map_to_curve', h_map1),
                 (r'<.+ as (?:map_to_curve::)?MapToCurve<.+>>::map2_to_curve', h_map2), (r'<.+ as AsRef<\[u8\]>>::as_ref', h_asref)]
        ex = C.new_executor(ctx, extra, generics_hint={'hash_to_curve': {'PtT': proj, 'X': 'Xmd', 'Mt': '&[u8]', 'Dt': '&[u8]'},
                                                       'encode_to_curve': {'PtT': proj, 'X': 'Xmd', 'Mt': '&[u8]', 'Dt': '&[u8]'}},
                            assoc_types={'<%s as CurveProjective>::Base' % proj: base})
        for meth, cnt in (('hash_to_curve', 2), ('encode_to_curve', 1)):
            del calls[:]
            st = State()
            m_ = ex.alloc(st, Opaque('MSG'))
            d_ = ex.alloc(st, Opaque('DST'))
            f = ex.fn_by_name(meth, 2)
            r = ex.call_fn(st, f, [m_, d_], {'PtT': proj, 'X': 'Xmd', 'Mt': '&[u8]', 'Dt': '&[u8]'})
            u = [H2F(msg, dst, z3.IntVal(cnt), z3.IntVal(i)) for i in range(cnt)]
            want = MAP2(u[0], u[1]) if cnt == 2 else MAP1(u[0])
            chk.must_unsat('%s.%s = %s(hash_to_field(msg, dst, %d)[..])' % (gname, meth, 'map2_to_curve' if cnt == 2 else 'map_to_curve', cnt),
                           r.c[0] != want, group='composition')
            chk.ground('%s.%s makes exactly one hash_to_field call with (msg, dst, %d) and one map call' % (gname, meth, cnt),
                       calls == [('hash_to_field', 'MSG', 'DST', cnt), ('map2_to_curve',) if cnt == 2 else ('map_to_curve',)], str(calls))
            chk.must_unsat_any('%s.%s: no panic (u has %d elements)' % (gname, meth, cnt), [o.formula() for o in ex.obligations[ex.harvested:]])
            ex.harvested = len(ex.obligations)
        chk.add_executor(ex)


def native_vectors(ctx):
    chk = ctx.chk
    cmds = ['%s %s %s' % (op, m.hex() or '-', d.hex()) for op, m, d, _ in RFC_VECTORS]
    res = {}
    for profile in ('dev', 'release'):
        n = load.Native(profile)
        try:
            outs = n.run(cmds)
        finally:
            n.close()
        for (op, m, d, want), o in zip(RFC_VECTORS, outs):
            ok = o.strip() == want
            chk.ground('RFC 9380 appendix J vector %s msg=%r (%s build)' % (op, m.decode(), profile), ok, o[:100])
            if not ok:
                chk.ground_handled = getattr(chk, 'ground_handled', {})
                chk.ground_handled['RFC 9380 appendix J vector %s msg=%r (%s build)' % (op, m.decode(), profile)] = True
                ctx.violation('h2c-vector:%s:%s' % (op, m.decode() or 'empty'), 'hash_to_curve disagrees with the RFC 9380 known-answer vector %s msg=%r: got %s' % (op, m.decode(), o[:120]),
                              {'cmd': '%s %s %s' % (op, m.hex() or '-', d.hex()), 'expected': want, 'got': o, 'profile': profile})


def native_end_to_end(ctx):
    """hash_to_curve / encode_to_curve of the native build = the native map2_to_curve / map_to_curve applied to field elements computed HERE
    (hashlib transcription of RFC 9380 5.2 / 5.3): ties the hashing front end of the real SHA-256 / SHA-512 / SHAKE128 suites to the map
    layer for boundary messages and tags (empty, block-aligned, 255-byte tag).  Supplementary oracle and replay target."""
    from . import c13
    chk = ctx.chk
    q = ref.Q
    suites = [('g1_h2c_sha256', 'sha256', c13.rfc_xmd, 'G1', 2), ('g1_e2c_sha256', 'sha256', c13.rfc_xmd, 'G1', 1), ('g2_h2c_sha256', 'sha256', c13.rfc_xmd, 'G2', 2),
              ('g2_e2c_sha256', 'sha256', c13.rfc_xmd, 'G2', 1), ('g1_h2c_sha512', 'sha512', c13.rfc_xmd, 'G1', 2), ('g1_h2c_shake128', 'shake_128', c13.rfc_xof, 'G1', 2),
              ('g2_h2c_shake128', 'shake_128', c13.rfc_xof, 'G2', 2)]
    shapes = [(0, 0), (1, 43), (64, 255), (65, 1)] if ctx.tier == 'quick' else [(0, 0), (0, 255), (1, 43), (55, 16), (64, 255), (65, 1), (128, 254), (200, 255)]
    cases = []
    # order: for one (message, tag) every suite in a row, random-oracle mode immediately followed by non-uniform mode of the same expander
    # -- the result must depend on (message, tag) only, not on what was hashed before on the same thread
    for ml, dl in shapes:
        for op, hname, f, g, cnt in suites:
            m, d = c13._bytes('m%d' % ml, ml), c13._bytes('d%d' % dl, dl)
            m_ = 1 if g == 'G1' else 2
            okm = f(hname, m, d, cnt * m_ * 64)
            es = [int.from_bytes(okm[i * 64:(i + 1) * 64], 'big') % q for i in range(cnt * m_)]
            if g == 'G1':
                mapcmd = ('g1_map2 %x %x' % (es[0], es[1])) if cnt == 2 else ('g1_map %x' % es[0])
            else:
                mapcmd = ('g2_map2 %x %x %x %x' % tuple(es)) if cnt == 2 else ('g2_map %x %x' % tuple(es))
            cases.append((op, ml, dl, '%s %s %s' % (op, m.hex() or '-', d.hex() or '-'), mapcmd))
    n = load.Native('release')
    try:
        outs = n.run([c[3] for c in cases] + [c[4] for c in cases])
    finally:
        n.close()
    k = len(cases)
    nbad = 0
    seen = set()
    for (op, ml, dl, hcmd, mcmd), oh, om in zip(cases, outs[:k], outs[k:]):
        pt = om.split(' insub=')[0].strip()
        if oh.strip() != pt:
            nbad += 1
            key = 'h2c-native:%s:%s' % (op, 'dst255' if dl == 255 else 'bytes')
            if key not in seen:
                seen.add(key)
                ctx.violation(key, '%s(|msg|=%d, |dst|=%d) differs from map(hash_to_field per RFC 9380 5.2/5.3 computed with hashlib): got %s, want %s' % (op, ml, dl, oh[:40], pt[:40]),
                              {'cmd': hcmd, 'expected_via': mcmd, 'got': oh.strip(), 'expected': pt, 'profile': 'release'})
    chk.extra['native_end_to_end'] = {'cases': k, 'disagreements': nbad, 'role': 'supplementary oracle / replay target'}


def run(ctx):
    chk = ctx.chk
    ctx.explanation = ('EUF symbolic execution of the HashToCurve blanket impl from MIR (composition decided by z3); RFC 9380 known-answer vectors replayed '
                       'natively in dev and release as an end-to-end anchor for constants and conventions')
    composition(ctx)
    chk.discharge()
    for o in chk.failed():
        o.handled = True
        ctx.violation('h2c-composition:' + o.name.split(' = ')[0], 'hash_to_curve composition obligation fails: ' + o.name, {'obligation': o.name, 'model': o.model})
    native_vectors(ctx)
    # the hashing front end, decided here as well (same machinery as C13): the generic expanders and hash_to_field with the hash uninterpreted
    from . import c13, c13_euf
    try:
        c13_euf.run_part(ctx)
        chk.discharge()
        c13.confirm_euf_failures(ctx)
    except Exception as e_:          # whatever stops the symbolic part, the native differential below still runs
        ctx.inconclusive('encoder (expanders): %s' % e_)
    native_end_to_end(ctx)
    chk.assumptions += ['hash_to_field = RFC 9380 5.2 (C13), map_to_curve / map2_to_curve = RFC composition (C14) of SSWU (C15), isogeny (C16), h_eff clearing (C17)',
                        'the four RFC vectors are known-answer tests, not a solver result: they pin constants / sign conventions end to end']
    chk.trusted += ['rustc MIR printer', 'mirsym', 'z3', 'native replay binary (sha2 0.8, sha3 0.8 from the cargo cache)']
    for g_ in chk.grounds:
        if not g_[1] and not getattr(chk, 'ground_handled', {}).get(g_[0]):
            chk.ground_handled = getattr(chk, 'ground_handled', {})
            chk.ground_handled[g_[0]] = True
            ctx.violation('h2c-structure:' + g_[0][:50], 'fact fails: %s (%s)' % (g_[0], g_[2]), {'fact': g_[0], 'detail': g_[2]})


def replay(ctx, path):
    run(ctx)
    return 1 if ctx.chk.violations else 0
