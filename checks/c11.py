"""C11  products of pairings: one Miller loop over many pairs equals the product (partial; see level_note).

S-monoid: the MIR of Bls12::miller_loop is executed with every line evaluation `ell(f, coeffs_j(Q_k), P_k)` multiplying f by a formal
generator L[k][j]; Fq12 values are exponent vectors over these generators (squaring doubles, conjugate is a formal involution).
For every pattern of identity operands among n <= 3 pairs the joint loop equals the product of the single-pair loops; every pair
consumes exactly the 68 coefficients of its own prepared element in order; G2Prepared::from_affine's skeleton produces 68
coefficients (doubling/addition schedule of |x|/2); helpers build the lists in order and exponentiate once."""
import itertools
import z3
from mirsym import ref, models
from mirsym.sym import State, GE, Agg, Enum, Ref, BV, Inconclusive, UNIT, Opaque, PathDead
from mirsym.models import deref
from . import common as C

NCOEFF = 68


def spec_single_schedule():
    """independent transcription of the optimal-ate Miller loop for x = -0xd201000000010000: exponent with which line j enters"""
    x = ref.BLS_X >> 1
    bits = bin(x)[2:]
    # skip the leading one; per remaining bit: line (doubling); if bit: line (addition); square.  final: line, conjugate
    uses = []
    squarings_after = []
    seq = []
    for b in bits[1:]:
        seq.append('L')
        if b == '1':
            seq.append('L')
        seq.append('S')
    seq.append('L')
    exps = []
    for i, s in enumerate(seq):
        if s == 'L':
            exps.append(2 ** sum(1 for t in seq[i + 1:] if t == 'S'))
    return exps


def run_loop(ctx, ex, n, pattern, ncoeff=NCOEFF):
    """pattern[k] in {'ok','p0','q0','both'}; returns (vector dict, errors)"""
    st = State()
    errs = []
    arity = 2 * n * ncoeff

    def idx(k, j, conj):
        return (k * ncoeff + j) * 2 + (1 if conj else 0)
    pairs = []
    for k in range(n):
        pz = pattern[k] in ('p0', 'both')
        qz = pattern[k] in ('q0', 'both')
        paff = Agg('ec::g1::G1Affine', (Opaque(('Px', k)), Opaque(('Py', k)), pz))
        p = ex.alloc(st, Agg('ec::g1::G1Prepared', (paff,)))
        coeffs = Agg('Vec', [Agg('(tuple)', (Opaque(('c', k, j, 0)), Opaque(('c', k, j, 1)), Opaque(('c', k, j, 2)))) for j in range(0 if qz else ncoeff)])
        q = ex.alloc(st, Agg('G2Prepared', (coeffs, qz)))
        pairs.append((p, q))
    arr = ex.alloc(st, Agg('[array]', [Agg('(tuple)', (p, q)) for p, q in pairs]))
    it = Agg('SliceIter', (Ref(arr.addr, ()), 0, n, False))

    def h_ell(ex_, st_, m, a):
        f = deref(ex_, st_, a[0])
        co = deref(ex_, st_, a[1])
        pt = deref(ex_, st_, a[2])
        tok = co.f[0].what
        k, j = tok[1], tok[2]
        if not (isinstance(pt.f[0], Opaque) and pt.f[0].what == ('Px', k)):
            errs.append('line of pair %d evaluated at the point of another pair' % k)
        c = list(f.c)
        c[idx(k, j, False)] = c[idx(k, j, False)] + 1
        ex_.store(st_, a[0], GE(f.ty, c))
        return UNIT

    def h_one(ex_, st_, m, a):
        return GE('fq12::Fq12', [0] * arity)

    def h_sq(ex_, st_, m, a):
        f = deref(ex_, st_, a[0])
        ex_.store(st_, a[0], GE(f.ty, [2 * v for v in f.c]))
        return UNIT

    def h_conj(ex_, st_, m, a):
        f = deref(ex_, st_, a[0])
        c = list(f.c)
        for i in range(0, len(c), 2):
            c[i], c[i + 1] = c[i + 1], c[i]
        ex_.store(st_, a[0], GE(f.ty, c))
        return UNIT
    ex.leaf_ops[:4] = [(__import__('re').compile(p), h) for p, h in [(r'(?:\w+::)*ell', h_ell), (r'<fq12::Fq12 as (?:ff::)?Field>::one', h_one),
                                                                     (r'<fq12::Fq12 as (?:ff::)?Field>::square', h_sq), (r'fq12::Fq12::conjugate', h_conj)]]
    nob = len(ex.obligations)
    try:
        r = ex.call(st, '<Bls12 as Engine>::miller_loop::<Iter>', [it])
    except PathDead:
        return None, errs, ex.obligations[nob:]
    return r.c, errs, ex.obligations[nob:]


def native_differential(ctx):
    """supplementary oracle and replay target: the native joint Miller loop (with SHARED prepared G2 objects, identities at any position,
    cancelling and repeated pairs, lists of 0..18 pairs) and the product helpers against the product of individually computed pairings;
    cancelling exponent sums must give exactly one"""
    import random
    from mirsym import load
    r = ref.R_ORDER
    rnd = random.Random(ctx.seed * 11 + 3)
    a, b, c, d = [rnd.randrange(2, r) for _ in range(4)]
    cases = [
        ('empty list', [], []),
        ('single pair', [b], [(a, 0)]),
        ('cancelling pair sharing one prepared Q, followed by another pair', [b, d], [(a, 0), (r - a, 0), (c, 1)]),
        ('cancelling pair sharing one prepared Q, last', [b, d], [(c, 1), (a, 0), (r - a, 0)]),
        ('cancelling pair interleaved with another pair', [b, d], [(a, 0), (c, 1), (r - a, 0)]),
        ('three points summing to zero on one prepared Q, then two more pairs', [b, d], [(2, 0), (3, 0), (r - 5, 0), (c, 1), (a, 1)]),
        ('shared prepared Q without cancellation', [b, d], [(a, 0), (c, 0), (7, 1), (9, 1)]),
        ('repeated identical pairs', [b], [(a, 0), (a, 0), (a, 0)]),
        ('identity G1 in the middle', [b, d], [(a, 0), (0, 1), (c, 1)]),
        ('identity G2 first', [0, d], [(a, 0), (c, 1)]),
        ('identity pair last', [b, 0], [(a, 0), (c, 1)]),
        ('e(P,Q) e(-P,Q) on separate prepared objects', [b, b], [(a, 0), (r - a, 1)]),
        ('exponents cancel across different Q: e(aP,bQ) e(-abP,Q)', [b, 1], [(a, 0), (r - (a * b) % r, 1)]),
        ('18 pairs, two prepared objects alternating', [b, d], [(i + 2, i % 2) for i in range(18)]),
    ]
    if ctx.tier == 'quick':
        cases = cases[:6] + cases[8:13]
    cmds = []
    for nm, qs, ps in cases:
        cmds.append('ml_check %d %s %d %s' % (len(qs), ' '.join('%x' % q for q in qs), len(ps), ' '.join('%x %d' % (p, j) for p, j in ps)))
    n = load.Native('release')
    try:
        outs = n.run(cmds)
    finally:
        n.close()
    nbad = 0
    for (nm, qs, ps), cmd, o in zip(cases, cmds, outs):
        flags = dict(kv.split('=') for kv in o.split() if '=' in kv)
        expo = sum(p * qs[j] for p, j in ps) % r if ps else 0
        ok = all(flags.get(k_) == 'true' for k_ in ('joint_equals_product', 'reuse_equal', 'pairing_product', 'pairing_multi_product')) and \
            (flags.get('is_one') == 'true') == (expo == 0 or not ps)
        if not ok:
            nbad += 1
            if nbad <= 3:
                ctx.violation('miller-native:' + nm[:40], 'joint Miller loop / product helpers disagree with the product of individual pairings on "%s": %s' % (nm, o[:160]),
                              {'cmd': cmd, 'input_class': nm, 'got': o, 'expected': 'all flags true; is_one iff the exponent sum is 0 mod r', 'profile': 'release'})
    ctx.chk.extra['native_differential'] = {'cases': len(cases), 'disagreements': nbad, 'role': 'supplementary oracle / replay target (sampling); the deciding method is the symbolic run'}


def _symbolic(ctx):
    chk = ctx.chk
    ctx.explanation = ('symbolic execution of the Miller-loop MIR over the free abelian group on formal line-evaluation generators; identity patterns enumerated; '
                       'vector equalities are exact integer comparisons (no symbolic unknowns remain), plumbing facts by inspection of the recorded calls')
    dummy = [(r'NEVER_MATCHES_%d' % i, lambda *a: NotImplemented) for i in range(4)]
    ex = C.new_executor(ctx, dummy, generics_hint={'miller_loop': {'I': 'Iter'}})
    nmax = 3 if ctx.tier == 'thorough' else 2
    want = spec_single_schedule()
    chk.ground('independent schedule has %d line evaluations' % NCOEFF, len(want) == NCOEFF, str(len(want)))
    # single pair: exact exponents, conjugated at the end
    vec, errs, obs = run_loop(ctx, ex, 1, ['ok'])
    got = [vec[2 * j + 1] for j in range(NCOEFF)]
    chk.ground('single Miller loop: line j enters with exponent 2^(#squarings after it) under one final conjugation, lines used in order 0..67',
               got == want and all(vec[2 * j] == 0 for j in range(NCOEFF)) and not errs and not obs, '%s %s' % (errs, got[:4]))
    # exact consumption: one coefficient fewer -> unwrap on None is reachable
    vec67, errs67, obs67 = run_loop(ctx, ex, 1, ['ok'], ncoeff=NCOEFF - 1)
    chk.ground('a prepared element with 67 coefficients makes next().unwrap() fail (exactly 68 are consumed)', vec67 is None and any('unwrap' in o.msg for o in obs67))
    ex.harvested = len(ex.obligations)
    singles = {}
    total = 0
    bad = []
    for n in range(0, nmax + 1):
        for pattern in itertools.product(['ok', 'p0', 'q0', 'both'], repeat=n):
            vec, errs, obs = run_loop(ctx, ex, n, list(pattern))
            total += 1
            exp = [0] * (2 * n * NCOEFF)
            for k in range(n):
                if pattern[k] == 'ok':
                    for j in range(NCOEFF):
                        exp[(k * NCOEFF + j) * 2 + 1] = want[j]
            if vec is None or list(vec) != exp or errs or obs:
                bad.append((n, pattern, errs[:1], len(obs)))
    chk.ground('joint Miller loop = product of the single-pair loops over the non-identity pairs, identity pairs skipped at any position: all %d patterns, n <= %d' % (total, nmax),
               not bad, str(bad[:3]))
    chk.extra['identity_patterns_executed'] = total
    chk.add_executor(ex)
    # ---- G2Prepared::from_affine skeleton
    steps = []

    def h_dbl(ex_, st_, m, a):
        steps.append('D')
        return Agg('(tuple)', (Opaque(('c', len(steps))),) * 3)

    def h_add(ex_, st_, m, a):
        steps.append('A')
        return Agg('(tuple)', (Opaque(('c', len(steps))),) * 3)
    ex2 = C.new_executor(ctx, [(r'(?:\w+::)*doubling_step', h_dbl), (r'(?:\w+::)*addition_step', h_add),
                               (r'<ec::g2::G2 as From<ec::g2::G2Affine>>::from|<ec::g2::G2Affine as Into<ec::g2::G2>>::into', lambda ex_, st_, m, a: Opaque('R'))])
    st = State()
    q = Agg('ec::g2::G2Affine', (Opaque('x'), Opaque('y'), False))
    fn = [f for f in ex2.fns_named('from_affine') if 'G2Prepared' in f.ret or 'G2Prepared' in f.name]
    if len(fn) != 1:
        raise Inconclusive('G2Prepared::from_affine body: %d candidates' % len(fn))
    r = ex2.call_fn(st, fn[0], [q], {})
    x = ref.BLS_X >> 1
    exp_steps = []
    for b in bin(x)[3:]:
        exp_steps.append('D')
        if b == '1':
            exp_steps.append('A')
    exp_steps.append('D')
    chk.ground('G2Prepared::from_affine: doubling/addition schedule follows the bits of |x|/2, %d coefficients, stored in order, infinity flag false' % NCOEFF,
               steps == exp_steps and len(r.f[0].f) == NCOEFF and r.f[1] is False and [c.f[0].what[1] for c in r.f[0].f] == list(range(1, NCOEFF + 1)), str(len(steps)))
    st = State()
    r0 = ex2.call_fn(st, fn[0], [Agg('ec::g2::G2Affine', (Opaque('x'), Opaque('y'), True))], {})
    chk.ground('G2Prepared::from_affine(O) = {no coefficients, infinity}', len(r0.f[0].f) == 0 and r0.f[1] is True)
    chk.add_executor(ex2)
    helpers(ctx)
    return nmax


def run(ctx):
    chk = ctx.chk
    nmax = 3 if ctx.tier == 'thorough' else 2
    try:
        _symbolic(ctx)
    except Exception as e_:          # whatever stops the symbolic part, the native differential below still runs
        ctx.inconclusive('encoder: %s' % e_)
    native_differential(ctx)
    chk.assumptions += ['Fq12 multiplication is commutative/associative and squaring doubles exponents (C09); mul_by_014 inside ell is the product with the sparse line value (C09)',
                        'final exponentiation is multiplicative (C12), so final_exponentiation(joint loop) = product of the pairings',
                        'outside: the value e(g1,g2)^(sum a_i b_i) for P_i=[a_i]g1, Q_i=[b_i]g2 needs bilinearity (C03, not applicable)']
    chk.bounds = {'pairs': 'n <= %d, all 4^n identity patterns' % nmax, 'loop': '63 bits of |x|/2, fully executed'}
    chk.trusted += ['rustc MIR printer', 'mirsym']
    for g_ in chk.grounds:
        if not g_[1]:
            chk.ground_handled = getattr(chk, 'ground_handled', {})
            chk.ground_handled[g_[0]] = True
            ctx.violation('miller:' + g_[0][:50], 'Miller-loop structure fact fails: %s (%s)' % (g_[0], g_[2]), {'fact': g_[0], 'detail': g_[2]})


def helpers(ctx):
    """Engine::pairing / pairing_product / pairing_multi_product build the prepared lists in order and exponentiate once"""
    chk = ctx.chk
    log = []

    def h_prep(kind):
        def h(ex_, st_, m, a):
            v = deref(ex_, st_, a[0]) if isinstance(a[0], Ref) else a[0]
            return Agg('Prepared', (Opaque((kind, v.what)),))
        return h

    def h_ml(ex_, st_, m, a):
        it = a[0]
        items = []
        if isinstance(it, Agg) and it.ty == 'SliceIter':
            base, i, n, _ = it.f
            seq = ex_.load(st_, base)
            items = list(seq.f[i:n])
        elif isinstance(it, Ref):
            seq = ex_.load(st_, Ref(it.addr, it.path))
            items = list(seq.f)
        pairs = []
        for t in items:
            p, q = ex_.load(st_, t.f[0]), ex_.load(st_, t.f[1])
            pairs.append((p.f[0].what, q.f[0].what))
        log.append(('miller_loop', pairs))
        return Opaque(('PROD', tuple(pairs), False))

    # Fq12 values are formal products: ('PROD', multiset of (P,Q) pairs whose Miller-loop outputs are multiplied in, final-exponentiated?)
    # -- a product of Miller loops is a Miller loop of the concatenation (C11 joint-loop claim), final exponentiation is multiplicative (C12)
    def h_one(ex_, st_, m, a):
        return Opaque(('PROD', (), None))

    def h_mul(ex_, st_, m, a):
        x, y = deref(ex_, st_, a[0]), deref(ex_, st_, a[1])
        if not (isinstance(x, Opaque) and isinstance(y, Opaque) and x.what[0] == 'PROD' and y.what[0] == 'PROD'):
            raise Inconclusive('Fq12 product of %r and %r' % (x, y))
        fx, fy = x.what[2], y.what[2]
        if fx is not None and fy is not None and fx != fy:
            raise Inconclusive('product of a final-exponentiated and a raw Miller value')
        ex_.store(st_, a[0], Opaque(('PROD', x.what[1] + y.what[1], fx if fx is not None else fy)))
        return UNIT

    def h_fe(ex_, st_, m, a):
        v = deref(ex_, st_, a[0])
        if not (isinstance(v, Opaque) and v.what[0] == 'PROD') or v.what[2] is True:
            raise Inconclusive('final exponentiation of %r' % (v,))
        log.append(('final_exponentiation', len(v.what[1])))
        from mirsym.models import some
        return some(Opaque(('PROD', v.what[1], True)))
    ident = lambda ex_, st_, m, a: a[0]
    extra = [(r'<.+ as CurveAffine>::prepare', None), (r'<Bls12 as Engine>::miller_loop::<.+>', h_ml), (r'<Bls12 as Engine>::final_exponentiation', h_fe),
             (r'<.+ as Into<.+>>::into', ident), (r'<(?:fq12::Fq12|<\w+ as Engine>::Fqk) as (?:ff::)?Field>::one', h_one),
             (r'<(?:fq12::Fq12|<\w+ as Engine>::Fqk) as (?:ff::)?Field>::mul_assign', h_mul)]
    extra[0] = (r'<ec::g1::G1Affine as CurveAffine>::prepare', h_prep('P'))
    extra.insert(1, (r'<ec::g2::G2Affine as CurveAffine>::prepare', h_prep('Q')))
    # closures `|v| v.prepare()` are executed from MIR; Iterator::map/collect need models
    from mirsym.models import call_closure, seq_items

    def h_map(ex_, st_, m, a):
        return Agg('MapIter', (a[0], a[1]))

    def h_collect(ex_, st_, m, a):
        mp = a[0]
        it, clo = mp.f
        base, i, n, _ = it.f
        out = []
        for k in range(i, n):
            out.append(call_closure(ex_, st_, clo, [Ref(base.addr, base.path + (('i', k),))]))
        return Agg('Vec', out)
    extra += [(r'<.+ as Iterator>::map::<.+>', h_map), (r'<.+ as Iterator>::collect::<.+>', h_collect)]
    ex = C.new_executor(ctx, extra, generics_hint={'pairing': {'G1': 'ec::g1::G1Affine', 'G2': 'ec::g2::G2Affine', 'Self': 'Bls12'},
                                                   'pairing_product': {'G1': 'ec::g1::G1Affine', 'G2': 'ec::g2::G2Affine', 'Self': 'Bls12'},
                                                   'pairing_multi_product': {'Self': 'Bls12'}},
                        assoc_types={'<Bls12 as Engine>::G1Affine': 'ec::g1::G1Affine', '<Bls12 as Engine>::G2Affine': 'ec::g2::G2Affine',
                                     '<Self as Engine>::G1Affine': 'ec::g1::G1Affine', '<Self as Engine>::G2Affine': 'ec::g2::G2Affine',
                                     '<Bls12 as Engine>::Fqk': 'fq12::Fq12', '<Self as Engine>::Fqk': 'fq12::Fq12'})
    def value_ok(r, pairs):
        return isinstance(r, Opaque) and isinstance(r.what, tuple) and r.what[0] == 'PROD' and r.what[2] is True and sorted(r.what[1]) == sorted(pairs)
    st = State()
    f = ex.fn_by_name('Engine::pairing')
    r = ex.call_fn(st, f, [Opaque('p1'), Opaque('q1')], {'Self': 'Bls12', 'G1': 'ec::g1::G1Affine', 'G2': 'ec::g2::G2Affine'})
    chk.ground('Engine::pairing(p,q) = final exponentiation of the Miller value of [(prepare p, prepare q)]',
               value_ok(r, [(('P', 'p1'), ('Q', 'q1'))]), '%r %s' % (r, log))
    del log[:]
    f = ex.fn_by_name('Engine::pairing_product')
    r = ex.call_fn(st, f, [Opaque('p1'), Opaque('q1'), Opaque('p2'), Opaque('q2')], {'Self': 'Bls12', 'G1': 'ec::g1::G1Affine', 'G2': 'ec::g2::G2Affine'})
    chk.ground('Engine::pairing_product = final exponentiation of the Miller value of (p1,q1),(p2,q2)',
               value_ok(r, [(('P', 'p1'), ('Q', 'q1')), (('P', 'p2'), ('Q', 'q2'))]), '%r %s' % (r, log))
    ok = True
    detail = ''
    f = ex.fn_by_name('Engine::pairing_multi_product')
    lengths = [0, 1, 2, 3, 5, 15, 16, 17, 18, 31, 32, 33, 64, 65, 100] + ([127, 128, 129, 255, 256, 257, 1000] if ctx.tier == 'thorough' else [])
    shapes = {}
    for n in lengths:
        del log[:]
        st = State()
        ps = ex.alloc(st, Agg('[array]', [Opaque('p%d' % i) for i in range(n)]))
        qs = ex.alloc(st, Agg('[array]', [Opaque('q%d' % i) for i in range(n)]))
        pr = Ref(ps.addr, (), BV(64, False, 0), BV(64, False, n))
        qr = Ref(qs.addr, (), BV(64, False, 0), BV(64, False, n))
        r = ex.call_fn(st, f, [pr, qr], {'Self': 'Bls12'})
        if not value_ok(r, [(('P', 'p%d' % i), ('Q', 'q%d' % i)) for i in range(n)]):
            if ok:
                detail = 'n=%d: result %s' % (n, repr(r)[:300])
            ok = False
        shapes[n] = [x[0] if x[0] != 'miller_loop' else 'miller_loop(%d)' % len(x[1]) for x in log]
    chk.ground('Engine::pairing_multi_product(p, q) = final exponentiation of the Miller value of exactly the pairs (p[i], q[i]), i < n, for n in %s' % lengths, ok, detail)
    chk.extra['pairing_multi_product_call_shape'] = {str(k): v for k, v in shapes.items() if k in (0, 3, 17)}
    chk.add_executor(ex)


def replay(ctx, path):
    run(ctx)
    return 1 if ctx.chk.violations else 0
