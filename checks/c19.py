"""C19  stream (de)serialization round-trips, validates and consumes exact lengths.

K-bits: SerDes for Fr, Fq12, G1, G1Affine, G2Affine with the point decoders / encoders replaced by arbitrary oracles (their behaviour
is C04 / C05), stream contents and the compressed flag symbolic, stream lengths on a boundary grid."""
from . import kani_common as K


def run(ctx):
    chk = ctx.chk
    ctx.level = 'model_checking'
    ctx.explanation = 'Kani/CBMC bounded model checking of the real SerDes code over &[u8] readers and Vec<u8> writers, decoder/encoder oracles, all stream bytes symbolic'
    K.run_harnesses(ctx, 'c19')
    K.report_failures(ctx, 'serdes')
    chk.assumptions += ['EncodedPoint::into_affine / from_affine replaced by oracles that respect only their types (so every decoder verdict is explored); Fq/Fr::mul_assign no-ops, into_repr identity',
                        'serialize is checked on the generators (any point works: the encoder is an oracle); projective points use the Z = 1 fast path of into_affine']
    chk.bounds.update({'stream lengths': 'G1Affine {0,47,48,95,96,97} (+49 thorough), G1 {47,95,97} (+96), G2Affine {95,193} (+96,191), G2 {191,193} (+95,97), Fr {0,31,32,33}, Fq12 {577} (+575,576); contents symbolic',
                       'unwind': '100 / 196 / 40 / 60 with unwinding assertions'})
    chk.trusted += ['Kani 0.68 / CBMC 6.11']


def replay(ctx, path):
    run(ctx)
    return 1 if ctx.chk.violations else 0
