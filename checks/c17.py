"""C17  cofactor clearing is multiplication by the RFC h_eff on the whole curve.

Engine S, exponent domain: chain_z, chain_h2_eff and both ClearH impls are executed from MIR on a
point with a *symbolic integer* exponent e over a formal generator; the solver shows result = h_eff*e."""
import z3
from mirsym import ref, models
from mirsym.sym import State, GE, Inconclusive
from . import common as C


def run(ctx):
    chk = ctx.chk
    ctx.explanation = ('MIR of the addition chains executed on exponent vectors (abelian-group abstraction of the curve '
                       'group); the final exponent is a linear integer term in the symbolic input exponent, compared by z3 '
                       'with h_eff * e for independent literals of h_eff')
    e = z3.Int('e')
    res = {}
    for gname, proj, aff in [('G1', 'ec::g1::G1', 'ec::g1::G1Affine'), ('G2', 'ec::g2::G2', 'ec::g2::G2Affine')]:
        D = models.GroupDomain(proj.replace('::', r'::'), aff).setup(1, proj, aff)
        ex = C.new_executor(ctx, D.models(), generics_hint={'chain_z': {'PtT': proj}, 'chain_h2_eff': {'PtT': proj}})
        # chain_z
        st = State()
        out, inp = ex.alloc(st, GE(proj, [0])), ex.alloc(st, GE(proj, [e]))
        ex.call(st, 'chain_z::<%s>' % proj, [out, inp])
        z = ex.load(st, out).c[0]
        chk.must_unsat('%s: chain_z(P) = [0xd201000000010000]P' % gname, z != ref.BLS_X * e, group='chain-exponent')
        res[gname + '.chain_z'] = z
        st = State()
        p = ex.alloc(st, GE(proj, [e]))
        ex.call(st, '<%s as ClearH>::clear_h' % proj, [p])
        h = ex.load(st, p).c[0]
        want = ref.H_EFF_G1 if gname == 'G1' else ref.H_EFF_G2
        chk.must_unsat('%s: clear_h(P) = [h_eff]P' % gname, h != want * e, group='chain-exponent')
        chk.must_unsat('%s: clear_h is additive (exponent linear in e, no constant term)' % gname,
                       z3.substitute(h, (e, z3.IntVal(0))) != 0, group='chain-exponent')
        res[gname + '.clear_h'] = h
        if gname == 'G2':
            st = State()
            out, inp = ex.alloc(st, GE(proj, [0])), ex.alloc(st, GE(proj, [e]))
            ex.call(st, 'chain_h2_eff::<%s>' % proj, [out, inp])
            h2 = ex.load(st, out).c[0]
            chk.must_unsat('G2: chain_h2_eff(P) = [3(x^2-1)h2]P', h2 != (3 * (ref.BLS_X ** 2 - 1) * ref.H2) * e, group='chain-exponent')
        chk.panic_obligations(ex, gname + '.clear_h')
        chk.add_executor(ex)
        chk.extra[gname + '_group_ops'] = D.ops
    chk.ground('h_eff(G1) literal = 1 - x = 0xd201000000010001', ref.H_EFF_G1 == ref.BLS_X + 1)
    chk.ground('h_eff(G2) literal (RFC 9380 8.8.2) = 3 (x^2-1) h2', ref.H_EFF_G2 == 3 * (ref.BLS_X ** 2 - 1) * ref.H2)
    chk.ground('h_eff(G1) = 0 mod h1-part: h1 | h_eff*(x-1)... (h1 = (x-1)^2/3, so 3*h1 = h_eff^2)', 3 * ref.H1 == ref.H_EFF_G1 ** 2)
    chk.bounds = {'loops': 'concrete trip counts (chain links), fully executed', 'inputs': 'every point: symbolic integer exponent over a formal generator'}
    chk.assumptions += ['double/add_assign/negate of the curve types act as the abelian group law (C01); sub_assign is the real default method (negate + add) executed from MIR',
                        '[h_eff] maps E(Fq) resp. E\'(Fq2) into the order-r subgroup (group structure, RFC 9380 8.8 / [BP17]); trusted']
    chk.trusted += ['rustc MIR printer', 'mirsym', 'z3']
    chk.discharge()
    for o in chk.failed():
        o.handled = True
        ctx.violation('cofactor:' + o.name.split(':')[0] + ':' + o.name.split(':')[1][:20],
                      'cofactor clearing: %s fails' % o.name, {'obligation': o.name, 'model': o.model,
                                                               'computed_multiplier': {k: str(z3.simplify(z3.substitute(v, (e, z3.IntVal(1))))) for k, v in res.items()}})


def replay(ctx, path):
    run(ctx)
    return 1 if ctx.chk.violations else 0
