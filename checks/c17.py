"""C17  cofactor clearing is multiplication by the RFC h_eff on the whole curve.

Engine S, exponent domain: chain_z, chain_h2_eff and both ClearH impls are executed from MIR on a
point with a *symbolic integer* exponent e over a formal generator; the solver shows result = h_eff*e."""
import z3
from mirsym import ref, models, load
from mirsym.sym import State, GE, Inconclusive
from . import common as C


def run(ctx):
    chk = ctx.chk
    ctx.explanation = ('MIR of the addition chains executed on exponent vectors (abelian-group abstraction of the curve '
                       'group); the final exponent is a linear integer term in the symbolic input exponent, compared by z3 '
                       'with h_eff * e for independent literals of h_eff')
    e = z3.Int('e')
    res = {}
    def _first_pass():
        for gname, proj, aff in [('G1', 'ec::g1::G1', 'ec::g1::G1Affine'), ('G2', 'ec::g2::G2', 'ec::g2::G2Affine')]:
            D = models.GroupDomain(proj.replace('::', r'::'), aff).setup(1, proj, aff)
            ex = C.new_executor(ctx, D.models(), generics_hint={'chain_z': {'PtT': proj}, 'chain_h2_eff': {'PtT': proj}})
            # chain_z
            st = State()
            out, inp = ex.alloc(st, GE(proj, [0])), ex.alloc(st, GE(proj, [e]))
            ex.call(st, 'chain_z::<%s>' % proj, [out, inp])
            z = ex.load(st, out).c[0]
            chk.must_unsat('%s: chain_z(P) = [0xd201000000010000]P' % gname, z != ref.BLS_X * e, group='chain-exponent')
            res[gname + '.chain_z'] = z
            st = State()
            p = ex.alloc(st, GE(proj, [e]))
            ex.call(st, '<%s as ClearH>::clear_h' % proj, [p])
            h = ex.load(st, p).c[0]
            want = ref.H_EFF_G1 if gname == 'G1' else ref.H_EFF_G2
            chk.must_unsat('%s: clear_h(P) = [h_eff]P' % gname, h != want * e, group='chain-exponent')
            chk.must_unsat('%s: clear_h is additive (exponent linear in e, no constant term)' % gname,
                           z3.substitute(h, (e, z3.IntVal(0))) != 0, group='chain-exponent')
            res[gname + '.clear_h'] = h
            if gname == 'G2':
                st = State()
                out, inp = ex.alloc(st, GE(proj, [0])), ex.alloc(st, GE(proj, [e]))
                ex.call(st, 'chain_h2_eff::<%s>' % proj, [out, inp])
                h2 = ex.load(st, out).c[0]
                chk.must_unsat('G2: chain_h2_eff(P) = [3(x^2-1)h2]P', h2 != (3 * (ref.BLS_X ** 2 - 1) * ref.H2) * e, group='chain-exponent')
            chk.panic_obligations(ex, gname + '.clear_h')
            chk.add_executor(ex)
            chk.extra[gname + '_group_ops'] = D.ops
    try:
        _first_pass()
    except Exception as e_:
        ctx.inconclusive('encoder (first pass): %s' % e_)
    chk.ground('h_eff(G1) literal = 1 - x = 0xd201000000010001', ref.H_EFF_G1 == ref.BLS_X + 1)
    chk.ground('h_eff(G2) literal (RFC 9380 8.8.2) = 3 (x^2-1) h2', ref.H_EFF_G2 == 3 * (ref.BLS_X ** 2 - 1) * ref.H2)
    chk.ground('h_eff(G1) = 0 mod h1-part: h1 | h_eff*(x-1)... (h1 = (x-1)^2/3, so 3*h1 = h_eff^2)', 3 * ref.H1 == ref.H_EFF_G1 ** 2)
    chk.bounds = {'loops': 'concrete trip counts (chain links), fully executed', 'inputs': 'every point: symbolic integer exponent over a formal generator'}
    chk.assumptions += ['double/add_assign/negate of the curve types act as the abelian group law (C01); sub_assign is the real default method (negate + add) executed from MIR',
                        '[h_eff] maps E(Fq) resp. E\'(Fq2) into the order-r subgroup (group structure, RFC 9380 8.8 / [BP17]); trusted']
    chk.trusted += ['rustc MIR printer', 'mirsym', 'z3']
    try:
        finite_order(ctx, res)
    except Exception as e_:          # whatever stops the symbolic part, the native differential below still runs
        ctx.inconclusive('encoder (finite-order pass): %s' % e_)
    chk.discharge()
    native_differential(ctx)
    for o in chk.failed():
        o.handled = True
        if isinstance(o.meta, dict) and 'finite_order' in o.meta:
            confirm_finite_order(ctx, o, res)
            continue
        ctx.violation('cofactor:' + o.name.split(':')[0] + ':' + o.name.split(':')[1][:20],
                      'cofactor clearing: %s fails' % o.name, {'obligation': o.name, 'model': o.model,
                                                               'computed_multiplier': {k: str(z3.simplify(z3.substitute(v, (e, z3.IntVal(1))))) for k, v in res.items()}})


def _val(p_, c, cap):
    """p-adic valuation of the integer c, capped (c = 0: cap)"""
    if c == 0:
        return cap
    v = 0
    while v < cap and c % p_ == 0:
        c //= p_
        v += 1
    return v


def _distribute(x):
    """an integer term built from numerals, + , * , - and if-then-else -> list of (condition, python int) leaves"""
    if isinstance(x, int):
        return [(z3.BoolVal(True), x)]
    x = z3.simplify(x)
    if z3.is_int_value(x):
        return [(z3.BoolVal(True), x.as_long())]
    k = x.decl().kind()
    if k == z3.Z3_OP_ITE:
        c = x.arg(0)
        return [(z3.And(c, c1), v) for c1, v in _distribute(x.arg(1))] + [(z3.And(z3.Not(c), c1), v) for c1, v in _distribute(x.arg(2))]
    if k in (z3.Z3_OP_ADD, z3.Z3_OP_MUL, z3.Z3_OP_SUB, z3.Z3_OP_UMINUS):
        parts = [_distribute(ch) for ch in x.children()]
        acc = parts[0] if k != z3.Z3_OP_UMINUS else [(c, -v) for c, v in parts[0]]
        for nxt in parts[1:]:
            new = []
            for c1, v1 in acc:
                for c2, v2 in nxt:
                    v = v1 + v2 if k == z3.Z3_OP_ADD else v1 * v2 if k == z3.Z3_OP_MUL else v1 - v2
                    new.append((z3.And(c1, c2), v))
            acc = new
            if len(acc) > 4096:
                raise Inconclusive('coefficient case split too large')
        return acc
    raise Inconclusive('coefficient term not understood: %s' % str(x)[:120])


def finite_order(ctx, res):
    """Second pass: the input is a generator P of a cyclic group of SYMBOLIC finite order m | #E (every point of the curve group is
    one).  m is given by its prime exponents a_p (0 <= a_p <= v_p(#E)), so a data-dependent test `c*P == O` is the linear constraint
    "a_p <= v_p(c) for every p", and the claim clear_h(P) = [h_eff]P is "m | (c_result - h_eff)" on every branch.  A counterexample
    (an order m) is replayed natively on a point of exactly that order."""
    chk = ctx.chk
    import sympy
    out = []
    for gname, proj, aff, hf, h_eff, curve in [('G1', 'ec::g1::G1', 'ec::g1::G1Affine', ref.H1_FACTORS, ref.H_EFF_G1, 'E1'),
                                                ('G2', 'ec::g2::G2', 'ec::g2::G2Affine', ref.H2_FACTORS, ref.H_EFF_G2, 'E2')]:
        fac = dict(hf)
        fac[ref.R_ORDER] = 1
        chk.ground('%s: group order = prod p^e over the listed primes (all prime)' % gname, all(sympy.isprime(p_) for p_ in fac), str(sorted(fac)[:6]))
        av = {p_: z3.Int('%s_ordexp_%d' % (gname, i)) for i, p_ in enumerate(sorted(fac))}
        box = z3.And(*[z3.And(av[p_] >= 0, av[p_] <= fac[p_]) for p_ in fac])

        def divides(c, fac=fac, av=av):
            """ord(P) | c"""
            leaves = _distribute(c)
            terms = []
            for cond, v in leaves:
                terms.append(z3.And(cond, *[av[p_] <= _val(p_, v, fac[p_]) for p_ in fac]))
            return z3.simplify(z3.Or(*terms)) if len(terms) > 1 else z3.simplify(terms[0])
        D = models.GroupDomain(proj.replace('::', r'::'), aff).setup(1, proj, aff)
        D.zero_pred = divides
        ex = C.new_executor(ctx, D.models(), generics_hint={'chain_z': {'PtT': proj}, 'chain_h2_eff': {'PtT': proj}})
        st = State()
        st.pc.append(box)
        p = ex.alloc(st, GE(proj, [1]))
        ex.call(st, '<%s as ClearH>::clear_h' % proj, [p])
        h = ex.load(st, p).c[0]
        name = '%s: clear_h(P) = [h_eff]P for a point of ANY finite order m | #E (order-dependent branches included)' % gname
        diff = h - h_eff if isinstance(h, int) else h - z3.IntVal(h_eff)
        chk.must_unsat(name, z3.And(box, z3.Not(divides(diff))), group='finite-order', meta={'finite_order': gname, 'primes': sorted(fac), 'vars': {str(av[p_]): p_ for p_ in fac}})
        chk.must_sat('%s: finite-order obligation is not vacuous (order r is admitted)' % gname, z3.And(box, av[ref.R_ORDER] == 1))
        chk.panic_obligations(ex, gname + '.clear_h (finite order)')
        chk.add_executor(ex)
    return out


def _point_of_order(curve, m, n_total, rnd, fq2, factors):
    """a point of exact order m on the curve (python reference), or None.  The Sylow subgroups need not be cyclic, so a random point
    is first stripped of every prime not dividing m, its exact order is computed, and it is scaled down to order m when possible."""
    mf = {p_: 0 for p_ in factors}
    rest = m
    for p_ in factors:
        while rest % p_ == 0:
            rest //= p_
            mf[p_] += 1
    if rest != 1:
        return None
    strip = 1
    for p_, e_ in factors.items():
        if mf[p_] == 0:
            strip *= p_ ** e_
    for _ in range(40):
        if fq2:
            x = (rnd.randrange(ref.Q), rnd.randrange(ref.Q))
            rhs = ref.f2_add(ref.f2_mul(ref.f2_sqr(x), x), curve.b)
            y = ref.f2_sqrt(rhs)
        else:
            x = rnd.randrange(ref.Q)
            y = ref.fq_sqrt((x * x * x + curve.b) % ref.Q)
        if y is None:
            continue
        P0 = curve.smul(strip, (x, y))
        # exact order of P0 (divides prod_{p | m} p^e_p)
        order = 1
        for p_, e_ in factors.items():
            if mf[p_] == 0:
                continue
            cof = 1
            for q_, f_ in factors.items():
                if mf[q_] and q_ != p_:
                    cof *= q_ ** f_
            T = curve.smul(cof, P0) if P0 is not None else None
            k = 0
            while T is not None and k <= e_:
                T = curve.smul(p_, T)
                k += 1
            order *= p_ ** k
        if m == 1:
            return None
        if order % m == 0 and P0 is not None:
            P = curve.smul(order // m, P0)
            if P is not None and curve.smul(m, P) is None:
                return P
    return None


def confirm_finite_order(ctx, o, res):
    """replay a finite-order counterexample natively: a point of exactly the order the solver chose, through the real clear_h"""
    import random
    meta = o.meta
    gname = meta['finite_order']
    model = o.model or {}
    m = 1
    for vname, p_ in meta['vars'].items():
        m *= p_ ** int(model.get(vname, 0) or 0)
    rnd = random.Random(ctx.seed + 17)
    fq2 = gname == 'G2'
    curve = ref.E2 if fq2 else ref.E1
    n_total = (ref.H2 if fq2 else ref.H1) * ref.R_ORDER
    factors = dict(ref.H2_FACTORS if fq2 else ref.H1_FACTORS)
    factors[ref.R_ORDER] = 1
    P = _point_of_order(curve, m, n_total, rnd, fq2, factors)
    if P is None:
        ctx.inconclusive('%s: no point of order %d found for the native replay of %s' % (gname, m, o.name))
        return
    h_eff = ref.H_EFF_G2 if fq2 else ref.H_EFF_G1
    want = curve.smul(h_eff, P)
    flat = (lambda pt: [c for co in pt for c in co]) if fq2 else (lambda pt: list(pt))
    one = ['1', '0'] if fq2 else ['1']
    cmd = ('g2_clear_h ' if fq2 else 'g1_clear_h ') + ' '.join('%x' % c for c in flat(P)) + ' ' + ' '.join(one)
    n = load.Native('release')
    try:
        got = n.run([cmd])[0].strip()
    finally:
        n.close()
    wtxt = 'inf' if want is None else ' '.join('%096x' % c for c in flat(want))
    if got != wtxt:
        ctx.violation('cofactor:finite-order:' + gname, 'cofactor clearing differs from [h_eff]P on a point of order %d: got %s, want %s' % (m, got[:50], wtxt[:50]),
                      {'obligation': o.name, 'order': m, 'cmd': cmd, 'got': got, 'expected': wtxt, 'profile': 'release', 'solver_model': model})
    else:
        ctx.inconclusive('%s: the solver counterexample (order %d) does not reproduce natively' % (gname, m))


def native_differential(ctx):
    """supplementary oracle and replay target: native clear_h on the identity (canonical and with residual coordinates), on subgroup points
    given with Z = 1 and with Z != 1, on the order-3 point of E(Fq) and on random curve points of E(Fq) / E'(Fq2), against [h_eff]P computed
    with the reference curve arithmetic"""
    import random
    rnd = random.Random(ctx.seed * 5 + 1)
    q, r = ref.Q, ref.R_ORDER
    n = load.Native('release')
    try:
        g = n.run(['g1_mul 7', 'g2_mul 7'])
        P1 = tuple(int(t, 16) for t in g[0].split())
        t2 = [int(t, 16) for t in g[1].split()]
        P2 = ((t2[0], t2[1]), (t2[2], t2[3]))
        l = rnd.randrange(2, q)
        x = rnd.randrange(q)
        while ref.fq_sqrt((x ** 3 + 4) % q) is None:
            x = rnd.randrange(q)
        R1 = (x, ref.fq_sqrt((x ** 3 + 4) % q))
        xx = (rnd.randrange(q), rnd.randrange(q))
        while ref.f2_sqrt(ref.f2_add(ref.f2_mul(ref.f2_sqr(xx), xx), (4, 4))) is None:
            xx = (rnd.randrange(q), rnd.randrange(q))
        R2 = (xx, ref.f2_sqrt(ref.f2_add(ref.f2_mul(ref.f2_sqr(xx), xx), (4, 4))))
        l2 = (rnd.randrange(1, q), rnd.randrange(q))
        cases1 = [('identity (0,1,0)', None, (0, 1, 0)), ('identity with residual coordinates', None, (5, 7, 0)), ('subgroup point, Z = 1', P1, (P1[0], P1[1], 1)),
                  ('subgroup point, Z != 1', P1, (P1[0] * l * l % q, P1[1] * pow(l, 3, q) % q, l)), ('point of order 3', (0, 2), (0, 2, 1)),
                  ('random curve point, Z = 1', R1, (R1[0], R1[1], 1)), ('random curve point, Z != 1', R1, (R1[0] * l * l % q, R1[1] * pow(l, 3, q) % q, l))]
        m2, s2 = ref.f2_mul, ref.f2_sqr
        cases2 = [('identity (0,1,0)', None, ((0, 0), (1, 0), (0, 0))), ('identity with residual coordinates', None, ((5, 1), (7, 2), (0, 0))),
                  ('subgroup point, Z = 1', P2, (P2[0], P2[1], (1, 0))), ('subgroup point, Z != 1', P2, (m2(P2[0], s2(l2)), m2(P2[1], m2(s2(l2), l2)), l2)),
                  ('random curve point, Z = 1', R2, (R2[0], R2[1], (1, 0))), ('random curve point, Z != 1', R2, (m2(R2[0], s2(l2)), m2(R2[1], m2(s2(l2), l2)), l2))]
        cmds = ['g1_clear_h %x %x %x' % t for _, _, t in cases1] + ['g2_clear_h ' + ' '.join('%x %x' % c for c in t) for _, _, t in cases2]
        outs = n.run(cmds)
    finally:
        n.close()
    nbad = 0
    for (gname, curve, h_eff, cs, os_) in [('G1', ref.E1, ref.H_EFF_G1, cases1, outs[:len(cases1)]), ('G2', ref.E2, ref.H_EFF_G2, cases2, outs[len(cases1):])]:
        for (nm, pt, _), o, cmd in zip(cs, os_, cmds[:len(cases1)] if gname == 'G1' else cmds[len(cases1):]):
            want = curve.smul(h_eff, pt) if pt is not None else None
            if want is None:
                wtxt = 'inf'
            elif gname == 'G1':
                wtxt = '%096x %096x' % want
            else:
                wtxt = '%096x %096x %096x %096x' % (want[0][0], want[0][1], want[1][0], want[1][1])
            if o.strip() != wtxt:
                nbad += 1
                ctx.violation('cofactor-native:%s:%s' % (gname, nm), '%s clear_h of the %s differs from [h_eff]P: got %s, want %s' % (gname, nm, o.strip()[:40], wtxt[:40]),
                              {'cmd': cmd, 'input_class': nm, 'got': o.strip(), 'expected': wtxt, 'profile': 'release'})
    ctx.chk.extra['native_differential'] = {'cases': len(cases1) + len(cases2), 'disagreements': nbad, 'role': 'supplementary oracle / replay target; the deciding method is the solver run'}


def replay(ctx, path):
    run(ctx)
    return 1 if ctx.chk.violations else 0
