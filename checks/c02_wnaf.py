"""wNAF part of C02: inductive steps of the real loop bodies (cut points at loop heads)."""
import z3
from mirsym import models
from mirsym.sym import State, GE, BV, Agg, Enum, Ref, Inconclusive, LazySeq, CutReached, UNIT
from . import common as C

W = 264
WS = 72     # width for one-step obligations: the accumulator enters linearly (acc' = 2 acc + delta) and the delta is a
            # 64-bit quantity, so equality modulo 2^72 is equality of the integer delta; stated in the evidence
WINDOWS = list(range(2, 23))
BOUND = (1 << 255) + (1 << 22)


def limbs_val(prefix, n=4):
    ls = [z3.BitVec('%s%d' % (prefix, i), 64) for i in range(n)]
    return Agg('fr::FrRepr', (Agg('[array]', [BV(64, False, l) for l in ls]),)), ls


def limbs_of(v):
    while isinstance(v, Agg) and len(v.f) == 1 and isinstance(v.f[0], Agg):
        v = v.f[0]
    return [x.z() for x in v.f]


def cat(ls):
    return z3.Concat(*reversed(ls))


def wnaf_form_steps(ctx, windows):
    chk = ctx.chk
    ex = C.new_executor(ctx, [], generics_hint={'wnaf_form': {'S': 'fr::FrRepr'}})
    f = ex.fn_by_name('wnaf_form')
    heads = ex.blocks_calling(f, r'PrimeFieldRepr>::is_zero', in_cycle=True)
    if len(heads) != 1:
        raise Inconclusive('wnaf_form: loop head not identified (%s)' % heads)
    head = heads[0]
    for w in windows:
        cval, cl = limbs_val('c')
        c = cat(cl)
        st = State()
        st.pc += [c != 0, z3.ULE(c, z3.BitVecVal(BOUND, 256))]
        vec = ex.alloc(st, Agg('Vec', (BV(64, True, 7), BV(64, True, -3))))     # junk from an earlier use of the context

        def cut(ex_, st_, fr, n):
            if n == 2:
                raise CutReached(st_, fr)
        ex.cuts = {(f.name, head): cut}
        nob = len(ex.obligations)
        try:
            ex.call(st, 'wnaf_form::<fr::FrRepr>', [vec, cval, BV(64, False, w)])
            raise Inconclusive('wnaf_form(w=%d): loop head not reached a second time' % w)
        except CutReached as cr:
            s2, fr = cr.st, cr.fr
        ex.cuts = {}
        c2 = cat(limbs_of(ex.load(s2, ex.local_ref(fr, 'c'))))
        digits = ex.load(s2, vec)
        pc = z3.And(*[C.mk(p) for p in s2.pc])
        junk_kept = len(digits.f) >= 2 and all(isinstance(x_, BV) and x_.concrete for x_ in digits.f[:2]) and [x_.v for x_ in digits.f[:2]] == [7, -3 % (1 << 64)] or \
            (len(digits.f) >= 2 and [getattr(x_, 'v', None) for x_ in digits.f[:2]] == [7, -3])
        chk.ground('wnaf_form(w=%d): digits left in the buffer by an earlier use are discarded' % w, not junk_kept, 'buffer starts with the old digits: %d entries' % len(digits.f))
        if junk_kept:
            continue
        if len(digits.f) != 1:
            chk.shape('wnaf_form(w=%d): exactly one digit pushed per iteration' % w, False, 'buffer has %d entries' % len(digits.f))
            continue
        chk.shape('wnaf_form(w=%d): exactly one digit pushed per iteration' % w, True)
        u = digits.f[0].z()
        cz, c2z, uz = z3.ZeroExt(W - 256, c), z3.ZeroExt(W - 256, c2), z3.SignExt(W - 64, u)
        pre = 'wnaf_form(w=%d) step: ' % w
        chk.must_unsat(pre + 'c = 2 c\' + d exactly (no borrow / carry lost)', z3.And(pc, cz != 2 * c2z + uz), group='wnaf-form-step')
        lim = z3.BitVecVal(1 << w, 64)
        chk.must_unsat(pre + 'd = 0 or (d odd and |d| < 2^w)', z3.And(pc, z3.Not(z3.Or(u == 0, z3.And(z3.Extract(0, 0, u) == 1, u < lim, u > -lim)))),
                       group='wnaf-form-step')
        chk.must_unsat(pre + 'bound c <= 2^255 + 2^22 is re-established', z3.And(pc, z3.UGT(c2, z3.BitVecVal(BOUND, 256))), group='wnaf-form-step')
        chk.must_unsat(pre + 'ranking: c\' < c (termination)', z3.And(pc, z3.UGE(c2, c)), group='wnaf-form-step')
        chk.must_sat(pre + 'reachable with a negative digit', z3.And(pc, u < 0))
        for i, ob in enumerate(ex.obligations[nob:]):
            chk.must_unsat(pre + 'no panic #%d (%s)' % (i, ob.msg[:50]), ob.formula(), group='no-panic', text='%s %s' % (ob.msg, ob.where))
    # zero scalar: empty digit string, buffer cleared
    st = State()
    vec = ex.alloc(st, Agg('Vec', (BV(64, True, 7),)))
    ex.call(st, 'wnaf_form::<fr::FrRepr>', [vec, Agg('fr::FrRepr', (Agg('[array]', [BV(64, False, 0)] * 4),)), BV(64, False, 4)])
    chk.ground('wnaf_form(0) leaves an empty digit string', len(ex.load(st, vec).f) == 0)
    chk.add_executor(ex)


def table_seq(proj, w, base=1):
    n = 1 << (w - 1)

    def get(i):
        iz = z3.ZeroExt(WS - 64, i.z()) if not i.concrete else z3.BitVecVal(i.v, WS)
        return GE(proj, [(2 * iz + 1) * base])
    return LazySeq(n, get, 'odd multiples, window %d' % w)


def wnaf_exp_steps(ctx, proj, aff, gname, windows):
    chk = ctx.chk
    D = models.GroupDomain(proj, aff).setup(1, proj, aff)
    ex = C.new_executor(ctx, D.models(), generics_hint={'wnaf_exp': {'G': proj}, 'wnaf_table': {'G': proj}})
    f = ex.fn_by_name('wnaf_exp')
    heads = ex.blocks_calling(f, r'as Iterator>::next', in_cycle=True)
    if len(heads) != 1:
        raise Inconclusive('wnaf_exp: loop head not identified')
    head = heads[0]
    for w in windows:
        n = z3.BitVec('n', 64)
        acc = z3.BitVec('acc', WS)
        fo = z3.Bool('found_one')
        st = State()
        lim = z3.BitVecVal(1 << w, 64)
        digit_ok = z3.Or(n == 0, z3.And(z3.Extract(0, 0, n) == 1, n < lim, n > -lim))
        st.pc += [digit_ok, z3.Implies(z3.Not(fo), acc == 0)]
        tab = ex.alloc(st, table_seq(proj, w))
        tabref = Ref(tab.addr, (), BV(64, False, 0), BV(64, False, 1 << (w - 1)))
        dig = ex.alloc(st, Agg('[array]', [BV(64, True, n)]))
        digref = Ref(dig.addr, (), BV(64, False, 0), BV(64, False, 1))
        got = {}

        def cut(ex_, st_, fr, k):
            if k == 1:
                ex_.store(st_, ex_.local_ref(fr, 'result'), GE(proj, [acc]))
                ex_.store(st_, ex_.local_ref(fr, 'found_one'), fo)
            elif k == 2:
                got['result'] = ex_.load(st_, ex_.local_ref(fr, 'result'))
                got['found_one'] = ex_.load(st_, ex_.local_ref(fr, 'found_one'))
                got['pc'] = list(st_.pc)
        ex.cuts = {(f.name, head): cut}
        nob = len(ex.obligations)
        res = ex.call(st, 'wnaf_exp::<%s>' % proj, [tabref, digref])
        ex.cuts = {}
        if 'result' not in got:
            raise Inconclusive('wnaf_exp: second arrival at loop head not seen')
        pc = z3.And(*[C.mk(p) for p in got['pc']])
        r2, f2 = got['result'].c[0], C.mk(got['found_one'])
        pre = '%s wnaf_exp(w=%d) step: ' % (gname, w)
        chk.must_unsat(pre + "acc' = 2 acc + d * base (table[|d|/2] = |d| * base)", z3.And(pc, r2 != 2 * acc + z3.SignExt(WS - 64, n)), group='wnaf-exp-step')
        chk.must_unsat(pre + "found_one' = found_one or d != 0; not found_one' => acc' = 0",
                       z3.And(pc, z3.Or(z3.Xor(f2, z3.Or(fo, n != 0)), z3.And(z3.Not(f2), r2 != 0))), group='wnaf-exp-step')
        chk.must_unsat(pre + 'function returns the accumulator', z3.And(pc, res.c[0] != r2), group='wnaf-exp-step')
        for i, ob in enumerate(ex.obligations[nob:]):
            chk.must_unsat(pre + 'no panic / table index in range #%d' % i, ob.formula(), group='no-panic', text='%s %s' % (ob.msg, ob.where))
    chk.must_sat('%s wnaf_exp step reachable with a negative digit before the first non-zero one' % gname, z3.And(pc, n < 0, z3.Not(fo)))
    # ---- wnaf_table: complete execution for small windows, inductive step for all
    for w in [x for x in windows if x <= 8]:
        st = State()
        vec = ex.alloc(st, Agg('Vec', (GE(proj, [z3.BitVecVal(99, W)]),)))     # junk
        ex.call(st, 'wnaf_table::<%s>' % proj, [vec, GE(proj, [z3.BitVecVal(1, W)]), BV(64, False, w)])
        t = ex.load(st, vec)
        vals = [z3.simplify(x.c[0]).as_long() if z3.is_expr(x.c[0]) else x.c[0] for x in t.f]
        chk.ground('%s wnaf_table(w=%d) = [1, 3, 5, ..., 2^w - 1] * base, length 2^(w-1), junk discarded' % (gname, w),
                   vals == [2 * i + 1 for i in range(1 << (w - 1))], 'len %d' % len(vals))
    ft = ex.fn_by_name('wnaf_table')
    theads = ex.blocks_calling(ft, r'as Iterator>::next', in_cycle=True)
    if len(theads) != 1:
        raise Inconclusive('wnaf_table: loop head not identified')
    for w in windows:
        b = z3.BitVec('b', W)
        g0 = z3.BitVec('g', W)
        st = State()
        vec = ex.alloc(st, Agg('Vec', (GE(proj, [z3.BitVecVal(99, W)]),)))
        got = {}

        def cutt(ex_, st_, fr, k):
            if k == 1:
                # arbitrary iteration: havoc the running base, forget the table contents built so far
                rng = [v for v in (st_.mem.get((fr.id, l)) for l in fr.fn.locals) if isinstance(v, Agg) and v.ty.endswith('Range')]
                got['range'] = rng
                got['len_at_head'] = len(ex_.load(st_, vec).f)
                ex_.store(st_, ex_.local_ref(fr, 'base'), GE(proj, [b]))
                ex_.store(st_, vec, Agg('Vec', ()))
            elif k == 2:
                raise CutReached(st_, fr)
        ex.cuts = {(ft.name, theads[0]): cutt}
        try:
            ex.call(st, 'wnaf_table::<%s>' % proj, [vec, GE(proj, [g0]), BV(64, False, w)])
            raise Inconclusive('wnaf_table: no second arrival at the loop head')
        except CutReached as cr:
            s2, fr = cr.st, cr.fr
        ex.cuts = {}
        t = ex.load(s2, vec)
        nb = ex.load(s2, ex.local_ref(fr, 'base')).c[0]
        pre = '%s wnaf_table(w=%d) step: ' % (gname, w)
        rng = got.get('range') or []
        ok_rng = len(rng) >= 1 and all(r_.f[0].concrete and r_.f[1].concrete and r_.f[0].v == 0 and r_.f[1].v == (1 << (w - 1)) for r_ in rng)
        chk.shape(pre + 'trip count 2^(w-1), table emptied at entry', ok_rng and got.get('len_at_head') == 0, str(rng)[:100])
        if len(t.f) != 1:
            chk.shape(pre + 'one push per iteration', False, 'len %d' % len(t.f))
            continue
        chk.must_unsat(pre + "pushes the running base and advances it by 2*base0", z3.Or(t.f[0].c[0] != b, nb != b + 2 * g0), group='wnaf-table-step')
    chk.add_executor(ex)


def recommendations(ctx):
    chk = ctx.chk

    def m_clz(ex, st, m, a):
        x = a[0]
        if x.concrete:
            return BV(32, False, x.w - x.v.bit_length())
        r = z3.BitVecVal(x.w, 32)
        for i in range(x.w):
            r = z3.If(z3.Extract(i, i, x.v) == 1, z3.BitVecVal(x.w - 1 - i, 32), r)
        return BV(32, False, r)
    ex = C.new_executor(ctx, [(r'core::num::<impl u64>::leading_zeros', m_clz)])
    for gname, proj in [('G1', 'ec::g1::G1'), ('G2', 'ec::g2::G2')]:
        kval, kl = limbs_val('s')
        st = State()
        nob = len(ex.obligations)
        r = ex.call(st, '<%s as CurveProjective>::recommended_wnaf_for_scalar' % proj, [kval])
        chk.must_unsat('%s.recommended_wnaf_for_scalar(any 256-bit repr) in 2..=22' % gname, z3.Or(z3.ULT(r.z(), 2), z3.UGT(r.z(), 22)), group='recommendation')
        nsc = z3.BitVec('num_scalars', 64)
        st = State()
        r2 = ex.call(st, '<%s as CurveProjective>::recommended_wnaf_for_num_scalars' % proj, [BV(64, False, nsc)])
        chk.must_unsat('%s.recommended_wnaf_for_num_scalars(any usize) in 2..=22' % gname, z3.Or(z3.ULT(r2.z(), 2), z3.UGT(r2.z(), 22)), group='recommendation')
        chk.must_unsat('%s.recommended_wnaf_for_num_scalars is monotone at the extremes (0 -> 4, usize::MAX -> max)' % gname,
                       z3.And(nsc == 0, r2.z() != 4), group='recommendation')
        chk.panic_obligations(ex, gname + '.recommended', start=nob)
    chk.add_executor(ex)


def context_plumbing(ctx):
    """Wnaf::{base, scalar, shared}: the staging code only hands its own buffers, the recommended window and its arguments on to
    wnaf_table / wnaf_form / wnaf_exp (recorded here as uninterpreted calls).  Together with "wnaf_table / wnaf_form discard whatever the
    buffer held" (steps above start from junk) this gives: a reused context returns what a fresh one would."""
    chk = ctx.chk
    proj, aff = 'ec::g1::G1', 'ec::g1::G1Affine'
    calls = []

    def rec(name):
        def h(ex, st, m, a):
            calls.append((name, list(a)))
            if name == 'wnaf_exp':
                return GE(proj, [z3.BitVec('exp_result_%d' % len(calls), WS)])
            return UNIT
        return h

    def m_asmut(ex, st, m, a):
        v = ex.load(st, a[0])
        return v if isinstance(v, Ref) else a[0]

    def m_asref_slice(ex, st, m, a):
        r = a[0]
        v = ex.load(st, r)
        if isinstance(v, Ref):
            r, v = v, ex.load(st, Ref(v.addr, v.path))
        if r.length is not None:
            return r
        return Ref(r.addr, r.path, BV(64, False, 0), BV(64, False, len(v.f)))
    D = models.GroupDomain(proj, aff).setup(1, proj, aff)
    WN, WSC = z3.BitVec('window_for_num_scalars', 64), z3.BitVec('window_for_scalar', 64)
    extra = [(r'(?:wnaf::)?wnaf_table::<.+>', rec('wnaf_table')), (r'(?:wnaf::)?wnaf_form::<.+>', rec('wnaf_form')), (r'(?:wnaf::)?wnaf_exp::<.+>', rec('wnaf_exp')),
             (r'<.+ as AsMut<Vec<.+>>>::as_mut', m_asmut), (r'<.+ as AsRef<\[.+\]>>::as_ref', m_asref_slice),
             (r'<.+ as CurveProjective>::recommended_wnaf_for_num_scalars', lambda ex, st, m, a: BV(64, False, WN)),
             (r'<.+ as CurveProjective>::recommended_wnaf_for_scalar', lambda ex, st, m, a: BV(64, False, WSC))]
    ex = C.new_executor(ctx, D.models(), extra_models=extra)

    def body(meth, nparams, first):
        fl = [f for f in ex.fns_named(meth) if f.name.startswith('wnaf::') and len(f.params) == nparams and first in f.params[0][1]]
        if len(fl) != 1:
            raise Inconclusive('Wnaf::%s body not identified (%d candidates)' % (meth, len(fl)))
        return fl[0]
    f_base0 = body('base', 3, 'Wnaf<(), ')
    f_scalar0 = body('scalar', 2, 'Wnaf<(), ')
    f_base1 = body('base', 2, 'Wnaf<usize, B, S>')
    f_scalar1 = body('scalar', 2, 'Wnaf<usize, B, S>')
    P = GE(proj, [z3.BitVec('P', WS)])
    kv, kl = limbs_val('k')
    junk_b = Agg('Vec', (GE(proj, [z3.BitVecVal(5, WS)]),) * 3)
    junk_s = Agg('Vec', (BV(64, True, 9), BV(64, True, -1)))
    sub = {'G': proj}

    def same_place(r, target):
        return isinstance(r, Ref) and r.addr == target.addr and r.path == target.path

    def is_win(v, sym):
        return isinstance(v, BV) and not v.concrete and v.v.eq(sym)
    # ---- order 1: base first, then scalar
    st = State()
    c0 = ex.alloc(st, Agg('wnaf::Wnaf', (junk_b, junk_s, UNIT)))
    bref, sref = c0.ext(('f', 0)), c0.ext(('f', 1))
    del calls[:]
    w1 = ex.call_fn(st, f_base0, [c0, P, BV(64, False, z3.BitVec('num', 64))], dict(sub))
    ok = len(calls) == 1 and calls[0][0] == 'wnaf_table' and same_place(calls[0][1][0], bref) and calls[0][1][1] is P and is_win(calls[0][1][2], WN)
    ok2 = isinstance(w1, Agg) and same_place(w1.f[0], bref) and w1.f[0].length is not None and same_place(w1.f[1], sref) and is_win(w1.f[2], WN)
    chk.ground('Wnaf::base(base, n): table built in the context\'s own base buffer with the recommended window; returns {its table, its digit buffer, window}', ok and ok2, str(calls)[:150])
    w1r = ex.alloc(st, w1)
    del calls[:]
    r = ex.call_fn(st, f_scalar1, [w1r, kv], dict(sub))
    ok = (len(calls) == 2 and calls[0][0] == 'wnaf_form' and same_place(calls[0][1][0], sref) and calls[0][1][1] is kv and is_win(calls[0][1][2], WN)
          and calls[1][0] == 'wnaf_exp' and same_place(calls[1][1][0], bref) and same_place(calls[1][1][1], sref) and isinstance(r, GE) and 'exp_result' in str(r.c[0]))
    chk.ground('...scalar(k): digits recoded into the context\'s digit buffer with the SAME window, then wnaf_exp(table, digits) is returned', ok, str([c[0] for c in calls]))
    # ---- order 2: scalar first, then base
    st = State()
    c0 = ex.alloc(st, Agg('wnaf::Wnaf', (junk_b, junk_s, UNIT)))
    bref, sref = c0.ext(('f', 0)), c0.ext(('f', 1))
    del calls[:]
    w2 = ex.call_fn(st, f_scalar0, [c0, kv], dict(sub))
    ok = len(calls) == 1 and calls[0][0] == 'wnaf_form' and same_place(calls[0][1][0], sref) and calls[0][1][1] is kv and is_win(calls[0][1][2], WSC)
    ok2 = isinstance(w2, Agg) and same_place(w2.f[0], bref) and same_place(w2.f[1], sref) and w2.f[1].length is not None and is_win(w2.f[2], WSC)
    chk.ground('Wnaf::scalar(k): digits recoded in the context\'s own digit buffer with the recommended window; returns {its table buffer, its digits, window}', ok and ok2, str(calls)[:150])
    w2r = ex.alloc(st, w2)
    del calls[:]
    r = ex.call_fn(st, f_base1, [w2r, P], dict(sub))
    ok = (len(calls) == 2 and calls[0][0] == 'wnaf_table' and same_place(calls[0][1][0], bref) and calls[0][1][1] is P and is_win(calls[0][1][2], WSC)
          and calls[1][0] == 'wnaf_exp' and same_place(calls[1][1][0], bref) and same_place(calls[1][1][1], sref) and isinstance(r, GE))
    chk.ground('...base(P): table built in the context\'s table buffer with the SAME window, then wnaf_exp(table, digits) is returned', ok, str([c[0] for c in calls]))
    # ---- shared(): fresh owned buffer for the other half, same borrowed half and window
    for first, idx_same, idx_new in (('&[G]', 0, 1), ('&mut Vec<G>', 1, 0)):
        fl = [f for f in ex.fns_named('shared') if f.name.startswith('wnaf::') and first in f.params[0][1]]
        if len(fl) != 1:
            raise Inconclusive('Wnaf::shared body not identified')
        src = w1 if idx_same == 0 else w2
        sr = ex.alloc(st, src)
        sh = ex.call_fn(st, fl[0], [sr], dict(sub))
        okc = isinstance(sh, Agg) and isinstance(sh.f[idx_same], Ref) and sh.f[idx_same].key() == src.f[idx_same].key() and isinstance(sh.f[idx_new], Agg) \
            and len(sh.f[idx_new].f) == 0 and isinstance(sh.f[2], BV) and sh.f[2].v.eq(src.f[2].v)
        chk.ground('Wnaf::shared (%s kept): same borrowed half and window, fresh empty buffer for the other half' % first, okc, str(sh)[:150])
    chk.add_executor(ex)


def run_part(ctx):
    tier = ctx.tier
    windows = WINDOWS if tier == 'thorough' else WINDOWS
    wnaf_form_steps(ctx, windows)
    for gname, proj, aff in [('G1', 'ec::g1::G1', 'ec::g1::G1Affine'), ('G2', 'ec::g2::G2', 'ec::g2::G2Affine')]:
        wnaf_exp_steps(ctx, proj, aff, gname, windows if gname == 'G1' or tier == 'thorough' else [2, 4, 12, 22])
    recommendations(ctx)
    context_plumbing(ctx)
