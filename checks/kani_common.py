"""Engine K: run Kani harnesses from /verif/kani against the current /repo tree and record verdicts."""
import os, re, subprocess, shutil, time, json, fcntl, threading
from concurrent.futures import ThreadPoolExecutor
from mirsym import load

HERE = os.path.dirname(os.path.abspath(__file__))
VERIF = os.path.dirname(HERE)

# harness registry: property prefix -> list of harness descriptors
#   name: module path of the #[kani::proof] fn; tier: quick|thorough; t: timeout seconds; mem: GB (ulimit -v)
REG = {
    'c01': [
        dict(name='c01::p13b4::double', tier='quick', t=900),
        dict(name='c01::p13b4::add_assign', tier='quick', t=1200),
        dict(name='c01::p13b4::add_assign_mixed', tier='quick', t=1200),
        dict(name='c01::p13b4::sub_assign', tier='quick', t=1200),
        dict(name='c01::p13b4::sub_assign_mixed', tier='quick', t=1200),
        dict(name='c01::p13b4::negate_eq_zero', tier='quick', t=1200),
        dict(name='c01::p13b4::conversions', tier='quick', t=1200),
        dict(name='c01::p13b4::batch_normalization_0_1', tier='quick', t=1200),
        dict(name='c01::p13b4::batch_normalization_2', tier='thorough', t=3600),
        dict(name='c01::p13b4::batch_normalization_3', tier='thorough', t=3600),
        dict(name='c01::p13b2::double', tier='thorough', t=1800),
        dict(name='c01::p13b2::add_assign', tier='thorough', t=2400),
        dict(name='c01::p13b2::add_assign_mixed', tier='thorough', t=2400),
        dict(name='c01::p13b2::negate_eq_zero', tier='thorough', t=2400),
        dict(name='c01::p13b2::conversions', tier='thorough', t=2400),
        dict(name='c01::p31b4::double', tier='thorough', t=3600),
        dict(name='c01::p31b4::add_assign', tier='thorough', t=3600),
        dict(name='c01::p31b4::add_assign_mixed', tier='thorough', t=3600),
        dict(name='c01::p31b4::negate_eq_zero', tier='thorough', t=3600),
        dict(name='c01::p31b4::conversions', tier='thorough', t=3600),
    ],
    'c08': [
        dict(name='c08::fq_repr::add_sub', tier='quick', t=900),
        dict(name='c08::fq_repr::mul2_div2_parity_zero_cmp', tier='quick', t=900),
        dict(name='c08::fq_repr::shifts_and_num_bits', tier='quick', t=1800),
        dict(name='c08::fq_repr::endian_io', tier='quick', t=1800),
        dict(name='c08::fr_repr::add_sub', tier='quick', t=900),
        dict(name='c08::fr_repr::mul2_div2_parity_zero_cmp', tier='quick', t=900),
        dict(name='c08::fr_repr::shifts_and_num_bits', tier='quick', t=1800),
        dict(name='c08::fr_repr::endian_io', tier='quick', t=1800),
        dict(name='c08::fq::add_double', tier='quick', t=900),
        dict(name='c08::fq::sub_negate_zero', tier='quick', t=900),
        dict(name='c08::fq::modulus_literal', tier='quick', t=600),
        dict(name='c08::fr::add_double', tier='quick', t=900),
        dict(name='c08::fr::sub_negate_zero', tier='quick', t=900),
        dict(name='c08::fr::modulus_literal', tier='quick', t=600),
        dict(name='c08::fq_from_repr_acceptance', tier='quick', t=1800, stubbing=True),
        dict(name='c08::fr_from_repr_acceptance', tier='quick', t=1800, stubbing=True),
        # users of the hard-coded constants 2^256 (Fq) and 2^192 (Fr): the reductions hi*2^k + lo for all 64/48-byte blocks (shared with C13)
        dict(name='c13::fq_from_okm', tier='quick', t=2400, stubbing=True),
        dict(name='c13::fr_from_okm', tier='quick', t=2400, stubbing=True),
    ],
    'c04': [
        dict(name='c04::g1_uncompressed', tier='quick', t=800, stubbing=True),
        dict(name='c04::g1_uncompressed_reencode', tier='quick', t=800, stubbing=True),
        dict(name='c04::g1_uncompressed_checked', tier='quick', t=800, stubbing=True),
        dict(name='c04::g1_compressed', tier='quick', t=800, stubbing=True),
        dict(name='c04::g2_uncompressed_flags', tier='quick', t=800, stubbing=True),
        dict(name='c04::g2_compressed_flags', tier='quick', t=800, stubbing=True),
        dict(name='c04::g2_compressed_checked_b0', tier='quick', t=800, stubbing=True),
        dict(name='c04::g2_uncompressed', tier='thorough', t=5400, stubbing=True, mem=24),
        dict(name='c04::g2_uncompressed_reencode', tier='thorough', t=5400, stubbing=True, mem=24),
        dict(name='c04::g2_uncompressed_checked', tier='thorough', t=5400, stubbing=True, mem=24),
        dict(name='c04::g2_compressed', tier='thorough', t=5400, stubbing=True, mem=24),
    ],
    'c05': [
        dict(name='c04::g1_encode_roundtrip', tier='quick', t=800, stubbing=True),
        dict(name='c04::g1_uncompressed_reencode', tier='quick', t=800, stubbing=True),
        dict(name='c04::g2_sort_flag_rule', tier='quick', t=800, stubbing=True),
        dict(name='c04::g1_compressed', tier='quick', t=800, stubbing=True),
        dict(name='c04::g2_encode_roundtrip', tier='thorough', t=5400, stubbing=True, mem=24),
        dict(name='c04::g2_uncompressed_reencode', tier='thorough', t=5400, stubbing=True, mem=24),
        dict(name='c04::g2_compressed', tier='thorough', t=5400, stubbing=True, mem=24),
    ],
    'c18': [
        dict(name='c18::fq_sgn0_order_negation', tier='quick', t=1800, stubbing=True),
        dict(name='c18::fq2_sgn0_order', tier='quick', t=1800, stubbing=True),
        dict(name='c18::sgn0result_xor_table', tier='quick', t=600),
    ],
    'c13': [
        dict(name='c13::xmd_m3_d3_l7', tier='quick', t=1800),
        dict(name='c13::xmd_m0_d1_l2', tier='quick', t=1800),
        dict(name='c13::xmd_m5_d0_l4', tier='quick', t=1800),
        dict(name='c13::xmd_m1_d3_l0', tier='quick', t=1800),
        dict(name='c13::xmd_m4_d2_l9', tier='thorough', t=3600),
        dict(name='c13::xmd_m8_d8_l16', tier='thorough', t=5400, mem=24),
        dict(name='c13::xmd_256_blocks_abort', tier='quick', t=1800),
        dict(name='c13::xmd_511_bytes_abort', tier='quick', t=600),
        dict(name='c13::xmd_dst255', tier='thorough', t=3600, mem=24),
        dict(name='c13::xof_dst255', tier='quick', t=1800),
        dict(name='c13::xof_m3_d3_l7', tier='quick', t=1800),
        dict(name='c13::xof_m0_d0_l1', tier='quick', t=1800),
        dict(name='c13::xof_m5_d2_l0', tier='thorough', t=1800),
        dict(name='c13::xof_m2_d8_l16', tier='thorough', t=3600),
        dict(name='c13::h2f_count0', tier='quick', t=1800),
        dict(name='c13::h2f_count1', tier='quick', t=1800),
        dict(name='c13::h2f_count2', tier='quick', t=1800),
        dict(name='c13::h2f_count3', tier='thorough', t=1800),
        dict(name='c13::fq_from_okm', tier='quick', t=2400, stubbing=True),
        dict(name='c13::fr_from_okm', tier='quick', t=2400, stubbing=True),
        dict(name='c13::fq2_from_ro', tier='quick', t=2400, stubbing=True),
    ],
    'c19': [
        dict(name='c19::g1_affine_de_0', tier='quick', t=1800, stubbing=True),
        dict(name='c19::g1_affine_de_47', tier='quick', t=1800, stubbing=True),
        dict(name='c19::g1_affine_de_48', tier='quick', t=1800, stubbing=True),
        dict(name='c19::g1_affine_de_49', tier='thorough', t=1800, stubbing=True),
        dict(name='c19::g1_affine_de_95', tier='quick', t=1800, stubbing=True),
        dict(name='c19::g1_affine_de_96', tier='quick', t=1800, stubbing=True),
        dict(name='c19::g1_affine_de_97', tier='quick', t=1800, stubbing=True),
        dict(name='c19::g2_affine_de_95', tier='quick', t=2400, stubbing=True),
        dict(name='c19::g2_affine_de_96', tier='thorough', t=2400, stubbing=True),
        dict(name='c19::g2_affine_de_191', tier='thorough', t=2400, stubbing=True),
        dict(name='c19::g2_affine_de_193', tier='quick', t=3600, stubbing=True),
        dict(name='c19::g1_projective_de_and_ser', tier='thorough', t=3600, stubbing=True),
        dict(name='c19::g1_projective_de_47', tier='quick', t=2400, stubbing=True),
        dict(name='c19::g1_projective_de_95', tier='quick', t=2400, stubbing=True),
        dict(name='c19::g1_projective_de_96', tier='thorough', t=2400, stubbing=True),
        dict(name='c19::g2_projective_de_95', tier='thorough', t=2400, stubbing=True),
        dict(name='c19::g2_projective_de_97', tier='thorough', t=2400, stubbing=True),
        dict(name='c19::g2_projective_de_191', tier='quick', t=3600, stubbing=True),
        dict(name='c19::g2_projective_de_193', tier='quick', t=3600, stubbing=True),
        dict(name='c19::serialize_all_point_types', tier='quick', t=3600, stubbing=True),
        dict(name='c19::fr_de_0', tier='quick', t=1200, stubbing=True),
        dict(name='c19::fr_de_31', tier='quick', t=1200, stubbing=True),
        dict(name='c19::fr_de_32', tier='quick', t=1200, stubbing=True),
        dict(name='c19::fr_de_33', tier='quick', t=1200, stubbing=True),
        dict(name='c19::fq12_de_0', tier='quick', t=1200, stubbing=True),
        dict(name='c19::fq12_de_48', tier='quick', t=1800, stubbing=True),
        dict(name='c19::fq12_de_528', tier='quick', t=3600, stubbing=True),
        dict(name='c19::fq12_de_575', tier='thorough', t=3600, stubbing=True, mem=24),
        dict(name='c19::fq12_de_576', tier='thorough', t=5400, stubbing=True, mem=24),
        dict(name='c19::fq12_de_577', tier='quick', t=5400, stubbing=True, mem=14),
    ],
}

SLOTS = int(os.environ.get('VERIF_KANI_JOBS', '8'))
_slot_lock = threading.Lock()
_slots_free = None


def prepare_crate():
    """sync /repo and the harness crate into the cache; returns crate dir"""
    with load.cache_lock('kani-sync') as root:
        repo = os.path.join(root, 'kani-repo')
        load.sync_repo(repo)
        crate = os.path.join(root, 'kani-crate')
        os.makedirs(crate, exist_ok=True)
        subprocess.check_call(['rsync', '-a', '--delete', os.path.join(VERIF, 'kani', 'src') + '/', os.path.join(crate, 'src') + '/'])
        tmpl = open(os.path.join(VERIF, 'kani', 'Cargo.toml.in')).read().replace('@REPO@', repo)
        load._write_if_changed(os.path.join(crate, 'Cargo.toml'), tmpl)
        if not os.path.exists(os.path.join(crate, 'Cargo.lock')):
            shutil.copy(os.path.join(repo, 'Cargo.lock'), os.path.join(crate, 'Cargo.lock'))
        return root, crate


def run_one(root, crate, h, logdir):
    global _slots_free
    with _slot_lock:
        if _slots_free is None:
            _slots_free = list(range(SLOTS))
    # take a target-dir slot (exclusive across processes through flock)
    slot = None
    fh = None
    while slot is None:
        for i in range(SLOTS):
            f = open(os.path.join(root, 'kani-slot-%d.lock' % i), 'w')
            try:
                fcntl.flock(f, fcntl.LOCK_EX | fcntl.LOCK_NB)
                slot, fh = i, f
                break
            except OSError:
                f.close()
        if slot is None:
            time.sleep(1.0)
    t0 = time.time()
    try:
        tdir = os.path.join(root, 'kani-target-%d' % slot)
        args = ['cargo', 'kani', '--harness', h['name'], '--target-dir', tdir, '--exact'] + h.get('args', [])
        if h.get('stubbing'):
            args += ['-Z', 'stubbing']
        mem_kb = int(h.get('mem', 14) * 1024 * 1024)
        cmd = 'ulimit -v %d; exec timeout -k 10 %d %s' % (mem_kb, h.get('t', 900), ' '.join(args))
        env = dict(os.environ, CARGO_NET_OFFLINE='true')
        env.pop('RUSTUP_TOOLCHAIN', None)
        env.pop('CARGO_TARGET_DIR', None)
        p = subprocess.run(['bash', '-c', cmd], cwd=crate, env=env, stdout=subprocess.PIPE, stderr=subprocess.STDOUT, text=True)
        out = p.stdout
        # per-harness result files (the interleaved "Thread k:" console output is only the fallback)
        files = {}
        for n in names:
            try:
                with open(os.path.join(resdir, n)) as rf:
                    files[n] = rf.read()
            except OSError:
                pass
    finally:
        fcntl.flock(fh, fcntl.LOCK_UN)
        fh.close()
    secs = round(time.time() - t0, 1)
    os.makedirs(logdir, exist_ok=True)
    with open(os.path.join(logdir, h['name'].replace('::', '_') + '.log'), 'w') as lf:
        lf.write(out)
    res = parse(out, p.returncode)
    res.update(harness=h['name'], seconds=secs, tier=h['tier'], rc=p.returncode)
    return res


def parse(out, rc):
    r = {'status': 'UNKNOWN', 'checks': 0, 'failed_checks': [], 'covers': None, 'covers_sat': None, 'stubs': []}
    m = re.search(r'\*\* (\d+) of (\d+) failed', out)
    if m:
        r['checks'] = int(m.group(2))
        r['nfailed'] = int(m.group(1))
    m = re.search(r'\*\* (\d+) of (\d+) cover properties satisfied', out)
    if m:
        r['covers_sat'], r['covers'] = int(m.group(1)), int(m.group(2))
    r['stubs'] = re.findall(r'- Stub: (.+)', out)
    if 'VERIFICATION:- SUCCESSFUL' in out:
        r['status'] = 'SUCCESS'
    elif 'VERIFICATION:- FAILED' in out:
        r['status'] = 'FAILED'
        # collect failed check descriptions
        fails = re.findall(r'Check \d+: ([^\n]+)\n\s+- Status: FAILURE\n\s+- Description: "([^"]*)"', out)
        r['failed_checks'] = ['%s: %s' % f for f in fails][:20]
        und = re.findall(r'- Status: (UNDETERMINED|ERROR)', out)
        if any('unwinding assertion' in f[1] for f in fails):
            r['status'] = 'UNWIND'
        elif not fails and und:
            r['status'] = 'ERROR'
        m = re.search(r'CBMC failed with status (\d+)', out)
        if not m and 'encountered no panics, but at least one was expected' in out:
            r['failed_checks'] = ['the panic the property demands is unreachable (#[kani::should_panic] harness saw none)']
        elif m or (not fails and not r.get('nfailed') and 'Failed Checks:' not in out):
            # the back end died (killed, out of memory, crash) or no failing check is named: no verdict, never a counterexample
            r['status'] = 'ERROR'
            r['detail'] = m.group(0) if m else 'FAILED without a failing check'
    elif rc == 124 or rc == 137:
        r['status'] = 'TIMEOUT'
    elif 'error' in out.lower() and 'Compiling' in out or 'error[' in out or 'error:' in out:
        r['status'] = 'BUILD-ERROR'
        r['detail'] = out[-1500:]
    if 'out of memory' in out.lower() or 'bad_alloc' in out or 'memory exhausted' in out.lower():
        r['status'] = 'OOM'
    if r['status'] == 'SUCCESS' and r['covers'] is not None and r['covers_sat'] != r['covers']:
        r['status'] = 'VACUOUS'
        r['detail'] = 'only %s of %s cover properties satisfiable' % (r['covers_sat'], r['covers'])
    return r


def parse_multi(out, names):
    """split the output of one multi-harness `cargo kani -j N --output-format terse` run into per-harness verdicts"""
    cur = {}            # thread -> harness
    blocks = {n: [] for n in names}
    thread = None
    for line in out.split('\n'):
        m = re.match(r'Thread (\d+): ?(.*)$', line)
        if m:
            thread = m.group(1)
            rest = m.group(2)
            mm = re.match(r'Checking harness (\S+?)\.\.\.', rest)
            if mm:
                cur[thread] = mm.group(1)
            if thread in cur and cur[thread] in blocks:
                blocks[cur[thread]].append(rest)
        elif thread is not None and thread in cur and cur[thread] in blocks:
            blocks[cur[thread]].append(line)
    res = {}
    for n in names:
        text = '\n'.join(blocks[n])
        r = parse(text, 0)
        if not blocks[n]:
            r['status'] = 'NOT-RUN'
        elif r['status'] == 'UNKNOWN' and ('timed out' in text.lower() or 'timeout' in text.lower()):
            r['status'] = 'TIMEOUT'
        m = re.search(r'Verification Time: ([\d.]+)s', text)
        r['seconds'] = float(m.group(1)) if m else None
        fails = re.findall(r'Failed Checks: ([^\n]+)', text)
        if fails and not r['failed_checks']:
            r['failed_checks'] = fails[:20]
            if r['status'] == 'FAILED' and all('unwinding assertion' in f for f in fails):
                r['status'] = 'UNWIND'
        r['text'] = text
        res[n] = r
    return res


def _watchdog(pgid, mem_kb, stop, killed):
    """kill any cbmc of our process group whose resident set exceeds the per-harness budget (reported as OOM, never as a verdict)"""
    page_kb = os.sysconf('SC_PAGE_SIZE') // 1024
    while not stop.wait(2.0):
        try:
            for d in os.listdir('/proc'):
                if not d.isdigit():
                    continue
                try:
                    with open('/proc/%s/stat' % d) as fh:
                        st = fh.read()
                except OSError:
                    continue
                rp = st.rfind(')')
                comm = st[st.find('(') + 1:rp]
                f = st[rp + 2:].split()
                if comm != 'cbmc' or int(f[3]) != pgid:      # session id = our Popen child
                    continue
                if int(f[21]) * page_kb > mem_kb:
                    try:
                        os.kill(int(d), 9)
                        killed.append(int(d))
                    except OSError:
                        pass
        except Exception:
            pass


def run_harnesses(ctx, prefix, tier_filter=True, only=None):
    """all selected harnesses of a property in one `cargo kani` invocation per memory class: the ordinary harnesses on SLOTS threads,
    the memory-hungry ones (mem >= 20 GB: full 96/192-byte G2 decoders, 255-block expansions, Fq12 streams) afterwards with as many
    jobs as fit into 52 GB"""
    hs = [h for h in REG[prefix] if (h['tier'] == 'quick' or ctx.tier == 'thorough' or not tier_filter)]
    if only is None and os.environ.get('VERIF_KANI_ONLY'):      # debugging aid; never set by registered commands
        only = os.environ['VERIF_KANI_ONLY'].split(',')
    if only:
        hs = [h for h in hs if any(o in h['name'] for o in only)]
    small = [h for h in hs if h.get('mem', 0) < 20]
    big = [h for h in hs if h.get('mem', 0) >= 20]
    out = []
    if small:
        out += _run_group(ctx, prefix, small, min(SLOTS, len(small)), '')
    if big:
        out += _run_group(ctx, prefix, big, max(1, min(len(big), int(52 // max(h['mem'] for h in big)))), '-big')
    return out


def _run_group(ctx, prefix, hs, jobs, tag):
    chk = ctx.chk
    only = None
    if only is None and os.environ.get('VERIF_KANI_ONLY'):      # debugging aid; never set by registered commands
        only = os.environ['VERIF_KANI_ONLY'].split(',')
    if only:
        hs = [h for h in hs if any(o in h['name'] for o in only)]
    if not hs:
        return []
    root, crate = prepare_crate()
    logdir = os.environ.get('VERIF_KEEP_LOGS') or os.path.join(ctx.scratch, 'kani-logs')
    os.makedirs(logdir, exist_ok=True)
    names = [h['name'] for h in hs]
    tmax = max(h.get('t', 900) for h in hs)
    mem_kb = int(max(h.get('mem', 14) for h in hs) * 1024 * 1024)
    # exclusive target dir (one of SLOTS, across concurrently running checks)
    slot, fh = None, None
    while slot is None:
        for i in range(SLOTS):
            f = open(os.path.join(root, 'kani-multi-%d.lock' % i), 'w')
            try:
                fcntl.flock(f, fcntl.LOCK_EX | fcntl.LOCK_NB)
                slot, fh = i, f
                break
            except OSError:
                f.close()
        if slot is None:
            time.sleep(1.0)
    t0 = time.time()
    try:
        tdir = os.path.join(root, 'kani-target-multi-%d' % slot)
        args = ['cargo', 'kani', '--exact'] + [x for n in names for x in ('--harness', n)] + \
               ['-j', str(jobs), '--output-format', 'terse', '--output-into-files', '-Z', 'stubbing', '-Z', 'unstable-options',
                '--harness-timeout', '%ds' % tmax, '--target-dir', tdir]
        resdir = os.path.join(tdir, 'result_output_dir')
        shutil.rmtree(resdir, ignore_errors=True)
        total = tmax * (1 + (len(names) - 1) // jobs) + 900
        # no `ulimit -v` on the whole invocation: kani-driver itself holds several GB with many harnesses and dies with "memory
        # allocation failed" (observed: one harness silently without a verdict).  Memory is policed per cbmc process instead.
        cmd = 'exec timeout -k 20 %d %s' % (total, ' '.join(args))
        env = dict(os.environ, CARGO_NET_OFFLINE='true')
        env.pop('RUSTUP_TOOLCHAIN', None)
        env.pop('CARGO_TARGET_DIR', None)
        p = subprocess.Popen(['bash', '-c', cmd], cwd=crate, env=env, stdout=subprocess.PIPE, stderr=subprocess.STDOUT, text=True, start_new_session=True)
        killed = []
        stop = threading.Event()
        wd = threading.Thread(target=_watchdog, args=(p.pid, mem_kb, stop, killed), daemon=True)
        wd.start()
        out, _ = p.communicate()
        stop.set()
        # per-harness result files (the interleaved "Thread k:" console output is only the fallback)
        files = {}
        for n in names:
            try:
                with open(os.path.join(resdir, n)) as rf:
                    files[n] = rf.read()
            except OSError:
                pass
    finally:
        fcntl.flock(fh, fcntl.LOCK_UN)
        fh.close()
    wall = round(time.time() - t0, 1)
    with open(os.path.join(logdir, prefix + tag + '_multi.log'), 'w') as lf:
        lf.write(out)
    per = parse_multi(out, names)
    for n, text in files.items():
        rf = parse(text, 0)
        if rf['status'] != 'UNKNOWN':
            m = re.search(r'Verification Time: ([\d.]+)s', text)
            rf['seconds'] = float(m.group(1)) if m else per[n].get('seconds')
            per[n] = rf
    build_error = ('error: could not compile' in out) or ('error[' in out and 'Checking harness' not in out)
    results = []
    for h in hs:
        r = per[h['name']]
        if build_error and r['status'] in ('NOT-RUN', 'UNKNOWN'):
            r['status'] = 'BUILD-ERROR'
            r['detail'] = out[-1500:]
        if r['status'] in ('NOT-RUN', 'UNKNOWN') and p.returncode in (124, 137):
            r['status'] = 'TIMEOUT'
        r.pop('text', None)
        r.update(harness=h['name'], tier=h['tier'], rc=p.returncode)
        if r.get('seconds') is None:
            r['seconds'] = wall
        results.append(r)
        chk.kani.append(r)
        print('  kani %-45s %-8s checks=%s covers=%s/%s %.0fs' % (r['harness'], r['status'], r['checks'], r['covers_sat'], r['covers'], r['seconds'] or 0))
    chk.extra['kani_invocation' + tag] = {'cbmc_killed_over_memory_budget': len(killed), 'per_cbmc_rss_budget_gb': round(mem_kb / 1048576, 1), 'harnesses': len(names), 'jobs': jobs, 'wall_s': wall, 'per_harness_timeout_s': tmax,
                                    'flags': '--exact -j N --output-format terse -Z stubbing -Z unstable-options --harness-timeout'}
    return results


def playback(ctx, h):
    """re-run a failing harness with concrete playback so that the counterexample is available as concrete input bytes"""
    try:
        root, crate = prepare_crate()
        tdir = os.path.join(root, 'kani-target-playback')
        args = ['cargo', 'kani', '--harness', h['name'], '--exact', '--target-dir', tdir, '-Z', 'concrete-playback', '--concrete-playback=print'] + (['-Z', 'stubbing'] if h.get('stubbing') else [])
        env = dict(os.environ, CARGO_NET_OFFLINE='true')
        env.pop('RUSTUP_TOOLCHAIN', None)
        with load.cache_lock('kani-playback'):
            p = subprocess.run(['bash', '-c', 'ulimit -v %d; exec timeout -k 10 %d %s' % (24 * 1024 * 1024, h.get('t', 900), ' '.join(args))],
                               cwd=crate, env=env, stdout=subprocess.PIPE, stderr=subprocess.STDOUT, text=True)
        m = re.search(r'Concrete playback unit test for `[^`]+`:\n```\n(.*?)\n```', p.stdout, re.S)
        return m.group(1) if m else None
    except Exception as e:
        return 'playback failed: %r' % (e,)


def report_failures(ctx, keyprefix):
    """a FAILED harness is a concrete counterexample inside the bound (CBMC's SAT model); it is reported with the failing checks and
    the concrete-playback unit test Kani generates from it (inputs as bytes; runnable with `cargo kani playback`)"""
    done = 0
    for k in ctx.chk.kani:
        if k['status'] == 'FAILED' and not k.get('handled'):
            k['handled'] = True
            pb = None
            if done < 2:
                h = [x for l in REG.values() for x in l if x['name'] == k['harness']]
                pb = playback(ctx, h[0]) if h else None
                done += 1
            ctx.violation('%s:%s' % (keyprefix, k['harness']), 'Kani found a counterexample in %s: %s' % (k['harness'], '; '.join(k.get('failed_checks', [])[:3])),
                          {'harness': k['harness'], 'failed_checks': k.get('failed_checks'), 'concrete_playback_test': pb,
                           'how': 'cd /verif/kani (Cargo.toml from Cargo.toml.in with @REPO@ = /repo); cargo kani --harness %s -Z stubbing -Z concrete-playback --concrete-playback=print' % k['harness']})
