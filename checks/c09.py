"""C09  Fq2 / Fq6 / Fq12 are the stated tower; Frobenius and sparse products are exact.

Engine S, ring domain: the real MIR of every tower operation is executed with Fq replaced by an
abstract commutative ring (integer terms); each result must equal schoolbook arithmetic in
Z[u,v,w]/(u^2+1, v^3-(u+1), w^2-v) as a polynomial identity (hence in every commutative ring).
"""
import z3
from mirsym import ref
from mirsym.sym import State, FE, BV, Agg, Enum, Ref, Inconclusive
from . import common as C
from .common import (fq, fq2, fq6, fq12, tolist, flat, s2_mul, s2_add, s2_sub, s2_neg, s6_mul, s6_add, s6_sub, s6_neg,
                     s12_mul, s12_add, s12_sub, s12_neg, S_XI, S_V)

T2, T6, T12 = 'fq2::Fq2', 'fq6::Fq6', 'fq12::Fq12'


def run(ctx):
    chk = ctx.chk
    ex, D = C.ring_executor(ctx)
    ctx.level = 'other'
    ctx.explanation = ('symbolic execution of the rustc MIR of the tower code over an abstract commutative ring; every '
                       'obligation is the negation of a polynomial identity (or of a case-split equivalence) decided '
                       'by z3; unsat for integer-valued unknowns means identical polynomials, hence validity in Fq')
    chk.assumptions += [
        'Fq behaves as a commutative ring with the operations add/sub/mul/square/double/negate and inverse() '
        'returning Some(t) with t*n = 1 exactly when n != 0 (conclusion of C08)',
        'u^2+1, v^3-(u+1), w^2-v are irreducible over Fq, Fq2, Fq6 (number theory; Euler criteria checked numerically '
        'as ground facts) so that norm = 0 iff element = 0',
        'x -> x^(q^k) acts on c0 + c1*g as Frob(c0) + Frob(c1) * g^(q^k) (field automorphism; theory)',
    ]
    chk.trusted += ['rustc nightly MIR printer', 'mirsym parser/executor (validated against native runs in C-wide '
                    'translator validation)', 'z3 5.1.0']
    chk.bounds = {'loops': 'none (straight-line code)', 'frobenius_power': 'symbolic 64-bit k, case split on k mod 12',
                  'field_size': 'none: identities hold in every commutative ring'}
    ids = C.Identities(ctx, 'tower')

    def ident(name, got, exp, group, cond=None):
        ids.ident(name, got, exp, group, cond=cond, key=name.split(':')[0].split(' ')[0])

    towers = [
        ('fq2', T2, fq2, s2_mul, s2_add, s2_sub, s2_neg, [1, 0]),
        ('fq6', T6, fq6, s6_mul, s6_add, s6_sub, s6_neg, [[1, 0], [0, 0], [0, 0]]),
        ('fq12', T12, fq12, s12_mul, s12_add, s12_sub, s12_neg,
         [[[1, 0], [0, 0], [0, 0]], [[0, 0], [0, 0], [0, 0]]]),
    ]
    for nm, ty, mk, rmul, radd, rsub, rneg, one in towers:
        F = '<%s as ff::Field>::' % ty
        a, b = mk('a'), mk('b')
        la, lb = tolist(a), tolist(b)
        for meth, nargs, exp in [
            ('add_assign', 2, radd(la, lb)), ('sub_assign', 2, rsub(la, lb)), ('mul_assign', 2, rmul(la, lb)),
            ('square', 1, rmul(la, la)), ('double', 1, radd(la, la)), ('negate', 1, rneg(la)),
        ]:
            st = State()
            ra, rb = ex.alloc(st, a), ex.alloc(st, b)
            ex.call(st, F + meth, [ra, rb][:nargs])
            ident('%s.%s' % (nm, meth), ex.load(st, ra), exp, 'ring-identity')
        # aliasing: x *= x through two references to the same storage is not expressible in safe Rust; skip
        # zero / one / is_zero
        st = State()
        z = ex.call(st, F + 'zero', [])
        o = ex.call(st, F + 'one', [])
        ident('%s.zero' % nm, z, [0] * len(flat(a)), 'constants')
        ident('%s.one' % nm, o, one, 'constants')
        ra = ex.alloc(st, a)
        iz = ex.call(st, F + 'is_zero', [ra])
        want = z3.And(*[D.iszero(x) for x in flat(a)])
        chk.must_unsat('%s.is_zero' % nm, z3.Xor(C.mk(iz), want), group='case-structure')
        # inverse (Fq12: layered over an abstract Fq6 below -- the monolithic degree is out of the solver's reach)
        # (Fq6 flattened over Fq was tried in the thorough tier: no verdict in 1200 s; the layered form below decides it)
        if nm == 'fq2':
            n0 = len(D.inv_facts)
            st = State()
            ra = ex.alloc(st, a)
            r = ex.call(st, F + 'inverse', [ra])
            if not (isinstance(r, Enum) and len(D.inv_facts) == n0 + 1):
                raise Inconclusive('%s.inverse: expected exactly one leaf inversion, got %d' % (nm, len(D.inv_facts) - n0))
            t, n = D.inv_facts[-1]
            out = r.payload['Some'][0]
            scaled = [x * (t * n) for x in flat(one)]
            ident('%s.inverse: out*in = (t*N)*1' % nm, rmul(tolist(out), la), _reshape(scaled, one), 'ring-identity')
            chk.must_unsat('%s.inverse: Some iff leaf norm invertible' % nm,
                           z3.Xor(r.disc == 1, z3.Not(D.iszero(n))), group='case-structure')
            # the norm handed to the leaf vanishes at 0 (so inverse(0) = None) -- concrete run
            st = State()
            rz = ex.alloc(st, _const_like(a, 0))
            r0 = ex.call(st, F + 'inverse', [rz])
            chk.ground('%s.inverse(0) is None' % nm, isinstance(r0, Enum) and r0.disc == 0, repr(r0)[:80])
        # derived PartialEq
        st = State()
        ra, rb = ex.alloc(st, a), ex.alloc(st, b)
        e = ex.call(st, '<%s as PartialEq>::eq' % ty, [ra, rb])
        want = z3.And(*[D.iszero(x - y) for x, y in zip(flat(a), flat(b))])
        chk.must_unsat('%s.eq' % nm, z3.Xor(C.mk(e), want), group='case-structure')

    # ---- Fq12 over an abstract commutative ring A standing for Fq6 (justified by the Fq6 identities above),
    #      with mul_by_nonresidue = multiplication by a fixed element V:  A[w]/(w^2 - V)
    from mirsym import models as _models
    D6 = _models.RingDomain(r'fq6::Fq6', 'Fq6', const_muls={r'fq6::Fq6::mul_by_nonresidue': 'V'})
    ex6 = C.new_executor(ctx, D6.models())
    D6.install(ex6)
    V = D6.const_mul_syms['V']
    chk.axioms += [D6.isz(z3.IntVal(0)), z3.Not(D6.isz(z3.IntVal(1)))]

    def a6(n):
        return FE('fq6::Fq6', z3.Int(n))

    def m12a(x, y):
        return [x[0] * y[0] + V * x[1] * y[1], x[0] * y[1] + x[1] * y[0]]
    a, b = Agg(T12, (a6('A0'), a6('A1'))), Agg(T12, (a6('B0'), a6('B1')))
    la, lb = tolist(a), tolist(b)
    F = '<%s as ff::Field>::' % T12
    for meth, nargs, exp in [('mul_assign', 2, m12a(la, lb)), ('square', 1, m12a(la, la))]:
        st = State()
        ra, rb = ex6.alloc(st, a), ex6.alloc(st, b)
        ex6.call(st, F + meth, [ra, rb][:nargs])
        ident('fq12/A.%s (layered over abstract Fq6)' % meth, ex6.load(st, ra), exp, 'ring-identity')
    st = State()
    ra = ex6.alloc(st, a)
    n0_ = len(D6.inv_facts)
    r = ex6.call(st, F + 'inverse', [ra])
    inverse_obligations(chk, ident, 'fq12 (over abstract Fq6)', D6, n0_, r, lambda o: m12a(tolist(o), la), [1, 0],
                        la[0] * la[0] - V * la[1] * la[1], 'c0^2 - V*c1^2')
    st = State()
    rz = ex.alloc(st, _const_like(fq12('z'), 0))
    r0 = ex.call(st, F + 'inverse', [rz])
    chk.ground('fq12.inverse(0) is None', isinstance(r0, Enum) and r0.disc == 0, repr(r0)[:80])
    chk.add_executor(ex6)

    # ---- Fq6 over an abstract commutative ring B standing for Fq2, mul_by_nonresidue = multiplication by XI:  B[v]/(v^3 - XI)
    D2 = _models.RingDomain(r'fq2::Fq2', 'Fq2', const_muls={r'fq2::Fq2::mul_by_nonresidue': 'XI'})
    ex2 = C.new_executor(ctx, D2.models())
    D2.install(ex2)
    chk.axioms += [D2.isz(z3.IntVal(0)), z3.Not(D2.isz(z3.IntVal(1)))]
    XIs = D2.const_mul_syms['XI']

    def b2(n):
        return FE('fq2::Fq2', z3.Int(n))

    def m6a(x, y):
        c = [0] * 5
        for i in range(3):
            for j in range(3):
                c[i + j] = c[i + j] + x[i] * y[j]
        return [c[0] + XIs * c[3], c[1] + XIs * c[4], c[2]]
    a, b = Agg(T6, (b2('A0'), b2('A1'), b2('A2'))), Agg(T6, (b2('B0'), b2('B1'), b2('B2')))
    la, lb = tolist(a), tolist(b)
    F = '<%s as ff::Field>::' % T6
    for meth, nargs, exp in [('mul_assign', 2, m6a(la, lb)), ('square', 1, m6a(la, la))]:
        st = State()
        ra, rb = ex2.alloc(st, a), ex2.alloc(st, b)
        ex2.call(st, F + meth, [ra, rb][:nargs])
        ident('fq6/B.%s (layered over abstract Fq2)' % meth, ex2.load(st, ra), exp, 'ring-identity')
    st = State()
    ra = ex2.alloc(st, a)
    n0_ = len(D2.inv_facts)
    r = ex2.call(st, F + 'inverse', [ra])
    a0_, a1_, a2_ = la
    inverse_obligations(chk, ident, 'fq6 (over abstract Fq2)', D2, n0_, r, lambda o: m6a(tolist(o), la), [1, 0, 0],
                        a0_ * a0_ * a0_ + XIs * a1_ * a1_ * a1_ + XIs * XIs * a2_ * a2_ * a2_ - 3 * XIs * a0_ * a1_ * a2_,
                        'a0^3 + XI a1^3 + XI^2 a2^3 - 3 XI a0 a1 a2')
    st = State()
    rz = ex.alloc(st, _const_like(fq6('z'), 0))
    r0 = ex.call(st, F + 'inverse', [rz])
    chk.ground('fq6.inverse(0) is None', isinstance(r0, Enum) and r0.disc == 0, repr(r0)[:80])
    chk.add_executor(ex2)

    # ---- Fq2 specifics
    a = fq2('a')
    la = tolist(a)
    st = State()
    ra = ex.alloc(st, a)
    ex.call(st, 'fq2::Fq2::mul_by_nonresidue', [ra])
    ident('fq2.mul_by_nonresidue', ex.load(st, ra), s2_mul(la, S_XI), 'ring-identity')
    st = State()
    ra = ex.alloc(st, a)
    nrm = ex.call(st, 'fq2::Fq2::norm', [ra])
    ident('fq2.norm', nrm, [la[0] * la[0] + la[1] * la[1]], 'ring-identity')
    # ---- Fq6 specifics
    a, c0, c1 = fq6('a'), fq2('c'), fq2('d')
    la, l0, l1 = tolist(a), tolist(c0), tolist(c1)
    st = State()
    ra = ex.alloc(st, a)
    ex.call(st, 'fq6::Fq6::mul_by_nonresidue', [ra])
    ident('fq6.mul_by_nonresidue', ex.load(st, ra), s6_mul(la, S_V), 'ring-identity')
    st = State()
    ra, r1 = ex.alloc(st, a), ex.alloc(st, c1)
    ex.call(st, 'fq6::Fq6::mul_by_1', [ra, r1])
    ident('fq6.mul_by_1', ex.load(st, ra), s6_mul(la, [[0, 0], l1, [0, 0]]), 'sparse-product')
    st = State()
    ra, r0, r1 = ex.alloc(st, a), ex.alloc(st, c0), ex.alloc(st, c1)
    ex.call(st, 'fq6::Fq6::mul_by_01', [ra, r0, r1])
    ident('fq6.mul_by_01', ex.load(st, ra), s6_mul(la, [l0, l1, [0, 0]]), 'sparse-product')
    # ---- Fq12 specifics
    a, c4 = fq12('a'), fq2('e')
    la, l4 = tolist(a), tolist(c4)
    st = State()
    ra = ex.alloc(st, a)
    ex.call(st, 'fq12::Fq12::conjugate', [ra])
    ident('fq12.conjugate', ex.load(st, ra), [la[0], s6_neg(la[1])], 'ring-identity')
    st = State()
    ra, r0, r1, r4 = ex.alloc(st, a), ex.alloc(st, c0), ex.alloc(st, c1), ex.alloc(st, c4)
    ex.call(st, 'fq12::Fq12::mul_by_014', [ra, r0, r1, r4])
    ident('fq12.mul_by_014', ex.load(st, ra), s12_mul(la, [[l0, l1, [0, 0]], [[0, 0], l4, [0, 0]]]), 'sparse-product')

    # ---- Frobenius: structure for symbolic power, then the tables as ground facts
    st = State()
    tabs = {}
    for nmc in ['FROBENIUS_COEFF_FQ2_C1', 'FROBENIUS_COEFF_FQ6_C1', 'FROBENIUS_COEFF_FQ6_C2', 'FROBENIUS_COEFF_FQ12_C1']:
        v = ex.named_const(st, 'fq::' + nmc)
        if v is None:
            raise Inconclusive('constant %s not found in MIR' % nmc)
        tabs[nmc] = tolist(v)
    k = z3.BitVec('k', 64)
    kv = BV(64, False, k)

    def frob2(x, j):
        return [x[0], x[1] * tabs['FROBENIUS_COEFF_FQ2_C1'][j % 2]]

    def frob6(x, j):
        return [frob2(x[0], j), s2_mul(frob2(x[1], j), tabs['FROBENIUS_COEFF_FQ6_C1'][j % 6]),
                s2_mul(frob2(x[2], j), tabs['FROBENIUS_COEFF_FQ6_C2'][j % 6])]

    def frob12(x, j):
        c1 = frob6(x[1], j)
        return [frob6(x[0], j), [s2_mul(y, tabs['FROBENIUS_COEFF_FQ12_C1'][j % 12]) for y in c1]]
    for nm, ty, mk, spec, period in [('fq2', T2, fq2, frob2, 2), ('fq6', T6, fq6, frob6, 6), ('fq12', T12, fq12, frob12, 12)]:
        a = mk('a')
        st = State()
        ra = ex.alloc(st, a)
        nob = len(ex.obligations)
        ex.call(st, '<%s as ff::Field>::frobenius_map' % ty, [ra, kv])
        got = ex.load(st, ra)
        for j in range(period):
            ids.ident('%s.frobenius_map k=%d mod %d' % (nm, j, period), got, spec(tolist(a), j), 'frobenius-structure',
                      cond=z3.URem(k, period) == j, fixed={'k': j}, key='%s.frobenius_map' % nm)
        chk.panic_obligations(ex, nm + '.frobenius_map', start=nob)
    # tables: ground facts on exact integers (values de-Montgomerised with R = 2^384 mod q)
    val = {}
    for key, (symv, n) in D.opaque.items():
        val[symv.decl().name()] = ref.from_mont(n)

    def cv(t):
        return tuple(C.eval_int(C.zi(x), val, ref.Q) for x in t) if isinstance(t, list) else C.eval_int(C.zi(t), val, ref.Q)
    q = ref.Q
    t2 = [cv(x) for x in tabs['FROBENIUS_COEFF_FQ2_C1']]
    chk.ground('FROBENIUS_COEFF_FQ2_C1 = [u^(q^j - 1)] = [1, -1]', t2 == [1, q - 1], str(t2)[:120])
    for nmc, num, den, cnt in [('FROBENIUS_COEFF_FQ6_C1', 1, 3, 6), ('FROBENIUS_COEFF_FQ6_C2', 2, 3, 6),
                               ('FROBENIUS_COEFF_FQ12_C1', 1, 6, 12)]:
        got = [cv(x) for x in tabs[nmc]]
        want = [ref.f2_pow(ref.XI, num * (q ** j - 1) // den) for j in range(cnt)]
        bad = [j for j in range(cnt) if got[j] != want[j]]
        chk.ground('%s[j] = xi^(%d(q^j-1)/%d), j<%d' % (nmc, num, den, cnt), len(got) == cnt and not bad, 'bad indices %s' % bad)
    # irreducibility (Euler-type criteria; numeric)
    chk.ground('-1 is a non-residue mod q (q = 3 mod 4)', q % 4 == 3)
    chk.ground('xi = 1+u is neither a square nor a cube in Fq2',
               ref.f2_pow(ref.XI, (q * q - 1) // 2) != ref.F2_ONE and ref.f2_pow(ref.XI, (q * q - 1) // 3) != ref.F2_ONE)
    chk.ground('v is a non-square in Fq6', ref.f6_pow(ref.F6_V, (q ** 6 - 1) // 2) != ref.F6_ONE)

    chk.add_executor(ex)
    translator_validation(ctx, ex, D, val)
    chk.discharge()
    ids.const_values = val
    ids.settle()
    C.settle_structural(ctx, ('case-structure', 'no-panic'), 'tower')
    for g in chk.grounds:
        if not g[1]:
            chk.ground_handled = getattr(chk, 'ground_handled', {})
            chk.ground_handled[g[0]] = True
            ctx.violation('tower-ground:' + g[0][:40], 'ground fact fails: %s (%s)' % (g[0], g[2]), {'fact': g[0], 'detail': g[2]})


def _reshape(flatvals, like):
    it = iter(flatvals)

    def rec(x):
        if isinstance(x, list):
            return [rec(y) for y in x]
        return next(it)
    return rec(like)


def _const_like(a, v):
    if isinstance(a, FE):
        return FE(a.ty, v)
    return Agg(a.ty, [_const_like(x, v) for x in a.f])


def replay(ctx, path):
    print('C09 replays are re-derived by running the check; see the replay file for the failing inputs')
    return run_and_code(ctx)


def run_and_code(ctx):
    run(ctx)
    return 1 if ctx.chk.violations else 0


def inverse_obligations(chk, ident, nm, D, n0, r, prod_out_in, one_vec, norm_spec, norm_name):
    """obligations for `inverse` when it makes ANY number of leaf inversions on different branches (fast paths):
    with (t_k, n_k) the k-th inversion (t_k n_k = 1 when n_k != 0) made under path condition pc_k, the result must satisfy
    out * in = (t_k n_k) * 1 on that branch.  Exactly one inversion (the code as it stands) gives the two classic obligations
    "out*in = (t N) 1" and "Some iff N invertible" plus "N is the norm"."""
    facts = D.inv_facts[n0:]
    pcs = D.inv_pcs[n0:]
    if not isinstance(r, Enum) or not facts:
        raise Inconclusive('%s.inverse: no leaf inversion observed' % nm)
    out = r.payload['Some'][0]
    if len(facts) == 1:
        t, n = facts[0]
        ident('%s.inverse: out*in = (t*N)*1' % nm, prod_out_in(out), [x * (t * n) for x in one_vec], 'ring-identity')
        chk.must_unsat('%s.inverse: Some iff norm invertible' % nm, z3.Xor(r.disc == 1, z3.Not(D.iszero(n))), group='case-structure')
        ident('%s.inverse: norm handed down = %s' % (nm, norm_name), [n], [norm_spec], 'ring-identity')
        return
    scale = z3.IntVal(1)
    for (t, n), pc in reversed(list(zip(facts, pcs))):
        c = z3.And(*[C.mk(x) for x in pc]) if pc else z3.BoolVal(True)
        scale = z3.If(c, t * n, scale)
    some = (r.disc == 1) if not isinstance(r.disc, int) else z3.BoolVal(r.disc == 1)
    ident('%s.inverse (%d inversions on different branches): out*in = (t_k*n_k)*1 on every branch that returns Some' % (nm, len(facts)),
          prod_out_in(out), [x * scale for x in one_vec], 'ring-identity', cond=some)
    chk.must_unsat('%s.inverse: Some iff the norm %s is non-zero' % (nm, norm_name), z3.Xor(some, z3.Not(D.iszero(norm_spec))), group='case-structure')



def translator_validation(ctx, ex, D, const_vals):
    """DESIGN 2.5: the symbolic results (from MIR) are evaluated at seeded random inputs modulo q and compared with the output
    of the NATIVE code (replay binary built from /repo) on the same inputs; a disagreement means the encoder or a leaf model is
    wrong and makes the run inconclusive (exit 2), never a pass or a violation."""
    import random
    from mirsym import load
    chk = ctx.chk
    rnd = random.Random(ctx.seed * 1000003 + 9)
    q = ref.Q
    cases = []
    k = z3.BitVec('k', 64)
    for nm, ty, mk, ncoef in [('fq2', T2, fq2, 2), ('fq6', T6, fq6, 6), ('fq12', T12, fq12, 12)]:
        a, b = mk('a'), mk('b')
        for meth in ('mul', 'square', 'frobenius'):
            st = State()
            ra, rb = ex.alloc(st, a), ex.alloc(st, b)
            if meth == 'mul':
                ex.call(st, '<%s as ff::Field>::mul_assign' % ty, [ra, rb])
            elif meth == 'square':
                ex.call(st, '<%s as ff::Field>::square' % ty, [ra])
            else:
                ex.call(st, '<%s as ff::Field>::frobenius_map' % ty, [ra, BV(64, False, k)])
            out = flat(ex.load(st, ra))
            names_a = [str(x) for x in flat(a)]
            names_b = [str(x) for x in flat(b)]
            for _ in range(2):
                env = dict(const_vals)
                va = [rnd.randrange(q) for _ in names_a]
                vb = [rnd.randrange(q) for _ in names_b]
                kv = rnd.choice([0, 1, 2, 3, 5, 6, 7, 11, 12, 13, 1 << 40])
                env.update(dict(zip(names_a, va)))
                env.update(dict(zip(names_b, vb)))
                env['k'] = kv
                want = ' '.join('%096x' % C.eval_mod(C.zi(t), env, q) for t in out)
                if meth == 'mul':
                    cmd = '%s_mul %s %s' % (nm, ' '.join('%x' % v for v in va), ' '.join('%x' % v for v in vb))
                elif meth == 'square':
                    cmd = '%s_square %s' % (nm, ' '.join('%x' % v for v in va))
                else:
                    cmd = '%s_frobenius %s %d' % (nm, ' '.join('%x' % v for v in va), kv)
                cases.append((cmd, want))
    ex.harvested = len(ex.obligations)
    n = load.Native('release')
    try:
        outs = n.run([c for c, _ in cases])
    finally:
        n.close()
    bad = [(c[:40], o[:30], w[:30]) for (c, w), o in zip(cases, outs) if o.strip() != w]
    chk.extra['translator_validation'] = {'cases': len(cases), 'disagreements': len(bad), 'what': 'symbolic result from MIR evaluated mod q vs native output of the release build'}
    if bad:
        ctx.inconclusive('translator validation: symbolic execution disagrees with the native code on %d of %d concrete cases, e.g. %r' % (len(bad), len(cases), bad[0]))
