"""C14  map_to_curve / map2_to_curve equal the RFC composition for all field inputs.

S-euf: the MIR of the blanket MapToCurve impl is executed with osswu_map / isogeny_map / clear_h /
add_assign as uninterpreted functions over points that carry the curve they live on (E' after SSWU,
E after the isogeny).  Obligation 1: the result term is the RFC composition (modulo the homomorphism
law of the isogeny, C16).  Obligation 2: every add_assign call site is *valid on the curve its operands
live on*: S-ring executes the real add_assign MIR with the curve coefficient `a` symbolic and asks the
solver whether each branch is the chord-and-tangent law of y^2 = x^3 + a x + b; the equal-operands
branch is so only for a = 0, hence an addition on E' (a' != 0) needs provably distinct operands.
Counterexamples are replayed natively (dev and release builds)."""
import random
import z3
from mirsym import ref, models, load
from mirsym.sym import State, GE, FE, Agg, Enum, Ref, Inconclusive, UNIT
from mirsym.models import deref
from . import common as C

Pt = z3.DeclareSort('Pt')
Fld = z3.DeclareSort('Fld')
f_sswu = z3.Function('sswu', Fld, Pt)
f_iso = z3.Function('iso', Pt, Pt)
f_clr = z3.Function('clear_h', Pt, Pt)
f_addE = z3.Function('add_E', Pt, Pt, Pt)
f_addEp = z3.Function('add_Eiso', Pt, Pt, Pt)


f_dblE = z3.Function('double_E', Pt, Pt)
# field operations on the (uninterpreted) inputs, for code that computes with u0 / u1 before mapping them
f_fsq = z3.Function('fld_square', Fld, Fld)
f_fneg = z3.Function('fld_neg', Fld, Fld)
f_fdbl = z3.Function('fld_double', Fld, Fld)
f_fmul = z3.Function('fld_mul', Fld, Fld, Fld)
f_fadd = z3.Function('fld_add', Fld, Fld, Fld)
f_fsub = z3.Function('fld_sub', Fld, Fld, Fld)
f_fzero = z3.Const('fld_zero', Fld)
f_fone = z3.Const('fld_one', Fld)
f_dblEp = z3.Function('double_Eiso', Pt, Pt)


def euf_models(proj, sites, base=None):
    P = proj

    def h_sswu(ex, st, m, a):
        u = deref(ex, st, a[0])
        return GE(P, [f_sswu(u.c[0])], 'Eiso')

    def h_iso(ex, st, m, a):
        p = deref(ex, st, a[0])
        if p.tag != 'Eiso':
            sites.append(('isogeny_map applied to a point that is not on the isogenous curve', p))
        ex.store(st, a[0], GE(P, [f_iso(p.c[0])], 'E'))
        return UNIT

    def h_clr(ex, st, m, a):
        p = deref(ex, st, a[0])
        if p.tag != 'E':
            sites.append(('clear_h applied to a point that is not on the target curve', p))
        ex.store(st, a[0], GE(P, [f_clr(p.c[0])], 'E'))
        return UNIT

    def h_add(ex, st, m, a):
        p, q = deref(ex, st, a[0]), deref(ex, st, a[1])
        if p.tag != q.tag:
            sites.append(('add_assign with operands on different curves', p, q))
        f = f_addE if p.tag == 'E' else f_addEp
        sites.append(('add', p.tag, p.c[0], q.c[0], list(st.pc)))
        ex.store(st, a[0], GE(P, [f(p.c[0], q.c[0])], p.tag))
        return UNIT

    def h_dbl(ex, st, m, a):
        p = deref(ex, st, a[0])
        f = f_dblE if p.tag == 'E' else f_dblEp
        sites.append(('double', p.tag, p.c[0], p.c[0], list(st.pc)))
        ex.store(st, a[0], GE(P, [f(p.c[0])], p.tag))
        return UNIT

    def h_eq(ex, st, m, a):
        x, y = deref(ex, st, a[0]), deref(ex, st, a[1])
        while isinstance(x, Ref):
            x = deref(ex, st, x)
        while isinstance(y, Ref):
            y = deref(ex, st, y)
        if isinstance(x, GE) and isinstance(y, GE):
            return x.c[0] == y.c[0]
        return NotImplemented

    def h_ne(ex, st, m, a):
        r = h_eq(ex, st, m, a)
        return r if r is NotImplemented else z3.Not(r)
    def fld1(fn):
        def h(ex, st, m, a):
            x = deref(ex, st, a[0])
            if not (isinstance(x, GE) and x.ty == base):
                return NotImplemented
            ex.store(st, a[0], GE(base, [fn(x.c[0])]))
            return UNIT
        return h

    def fld2(fn):
        def h(ex, st, m, a):
            x, y = deref(ex, st, a[0]), deref(ex, st, a[1])
            if not (isinstance(x, GE) and isinstance(y, GE) and x.ty == base):
                return NotImplemented
            ex.store(st, a[0], GE(base, [fn(x.c[0], y.c[0])]))
            return UNIT
        return h

    def h_fis_zero(ex, st, m, a):
        x = deref(ex, st, a[0])
        return (x.c[0] == f_fzero) if isinstance(x, GE) and x.ty == base else NotImplemented
    pp = P.replace('::', r'::')
    bb = (base or 'NOBASE').replace('::', r'::')
    FF = r'<' + bb + r' as (?:ff::)?Field>::'
    return [
        (FF + 'square', fld1(f_fsq)), (FF + 'negate', fld1(f_fneg)), (FF + 'double', fld1(f_fdbl)),
        (FF + 'mul_assign', fld2(f_fmul)), (FF + 'add_assign', fld2(f_fadd)), (FF + 'sub_assign', fld2(f_fsub)),
        (FF + 'is_zero', h_fis_zero), (FF + 'zero', lambda ex, st, m, a: GE(base, [f_fzero])), (FF + 'one', lambda ex, st, m, a: GE(base, [f_fone])),
        (r'<' + bb + r' as Clone>::clone', lambda ex, st, m, a: deref(ex, st, a[0])),
        (r'<' + pp + r' as (?:bls12_381::)?(?:osswu_map::)?OSSWUMap>::osswu_map', h_sswu),
        (r'<' + pp + r' as (?:bls12_381::)?(?:isogeny::)?IsogenyMap>::isogeny_map', h_iso),
        (r'<' + pp + r' as (?:bls12_381::)?(?:cofactor::)?ClearH>::clear_h', h_clr),
        (r'<' + pp + r' as CurveProjective>::add_assign', h_add),
        (r'<' + pp + r' as CurveProjective>::double', h_dbl),
        (r'<(?:&)?' + bb + r' as PartialEq(?:<.+>)?>::eq', h_eq),
        (r'<(?:&)?' + bb + r' as PartialEq(?:<.+>)?>::ne', h_ne),
    ]


def jac_double_spec(X, Y, Z, a):
    """dbl-2007-bl for general a (textbook tangent law in Jacobian coordinates)"""
    XX, YY, ZZ = X * X, Y * Y, Z * Z
    M = 3 * XX + a * ZZ * ZZ
    S = 4 * X * YY
    X3 = M * M - 2 * S
    Y3 = M * (S - X3) - 8 * YY * YY
    Z3 = 2 * Y * Z
    return X3, Y3, Z3


def run(ctx):
    chk = ctx.chk
    ctx.explanation = ('EUF composition check of the MapToCurve MIR + ring-domain analysis of the real add_assign MIR with a '
                       'symbolic curve coefficient a (validity of each add call site on the curve its operands live on); '
                       'native replay of counterexamples in dev and release')
    findings = []
    def _symbolic():
        for gname, proj, base, leaf in [('G1', 'ec::g1::G1', 'fq::Fq', r'fq::Fq'), ('G2', 'ec::g2::G2', 'fq2::Fq2', r'fq2::Fq2')]:
            sites = []
            ex = C.new_executor(ctx, euf_models(proj, sites, base), generics_hint={'map_to_curve': {'PtT': proj}, 'map2_to_curve': {'PtT': proj}},
                                assoc_types={'<%s as CurveProjective>::Base' % proj: base})
            u0, u1 = z3.Const('u0', Fld), z3.Const('u1', Fld)
            st = State()
            r0 = ex.alloc(st, GE(base, [u0]))
            res = ex.call(st, '<%s as map_to_curve::MapToCurve<%s>>::map_to_curve' % (proj, proj), [r0])
            chk.must_unsat('%s: map_to_curve(u) = clear_h(iso(sswu(u)))' % gname, res.c[0] != f_clr(f_iso(f_sswu(u0))), group='composition')
            n1 = len(sites)
            st = State()
            r0, r1 = ex.alloc(st, GE(base, [u0])), ex.alloc(st, GE(base, [u1]))
            res2 = ex.call(st, '<%s as map_to_curve::MapToCurve<%s>>::map2_to_curve' % (proj, proj), [r0, r1])
            s0, s1 = f_sswu(u0), f_sswu(u1)
            hom = z3.And(f_iso(f_addEp(s0, s1)) == f_addE(f_iso(s0), f_iso(s1)),        # C16 (homomorphism), instantiated at this call
                         f_dblE(f_iso(s0)) == f_addE(f_iso(s0), f_iso(s0)), f_dblE(f_iso(s1)) == f_addE(f_iso(s1), f_iso(s1)),      # C01: doubling on E = P + P
                         f_iso(f_dblEp(s0)) == f_addE(f_iso(s0), f_iso(s0)), f_iso(f_dblEp(s1)) == f_addE(f_iso(s1), f_iso(s1)))
            chk.must_unsat('%s: map2_to_curve(u0,u1) = clear_h(iso(sswu(u0)) + iso(sswu(u1))) modulo iso homomorphism' % gname,
                           z3.And(hom, res2.c[0] != f_clr(f_addE(f_iso(s0), f_iso(s1)))), group='composition')
            chk.must_sat('%s: composition obligation is not vacuous' % gname, z3.And(hom, res2.c[0] == f_clr(f_addE(f_iso(s0), f_iso(s1)))))
            for b in [x for x in sites if x[0] not in ('add', 'double')]:
                findings.append((gname, 'typing', b[0]))
            adds = [s for s in sites[n1:] if s[0] in ('add', 'double')]
            bad = [s for s in sites if s[0] not in ('add', 'double')]
            chk.extra[gname + '_group_op_call_sites'] = [{'op': s[0], 'curve': s[1], 'lhs': str(s[2]), 'rhs': str(s[3]), 'path_condition': str(s[4])[:120]} for s in adds]
            chk.panic_obligations(ex, gname + '.map_to_curve')
            chk.add_executor(ex)
            # ---- validity of add_assign on a curve with coefficient a  (real MIR, ring domain)
            exr, D = C.ring_executor(ctx, ty_pat=leaf, name=gname + 'F')
            mkf = (lambda n: FE(base, z3.Int(n)))
            X1, Y1, Z1, X2, Y2, Z2 = [mkf(n) for n in ('X1', 'Y1', 'Z1', 'X2', 'Y2', 'Z2')]
            a = z3.Int('a')
            st = State()
            rp, rq = exr.alloc(st, Agg(proj, (X1, Y1, Z1))), exr.alloc(st, Agg(proj, (X2, Y2, Z2)))
            exr.call(st, '<%s as CurveProjective>::add_assign' % proj, [rp, rq])
            out = exr.load(st, rp)
            X3, Y3, Z3 = [f.e for f in out.f]
            Z1Z1, Z2Z2 = Z1.e * Z1.e, Z2.e * Z2.e
            U1, U2 = X1.e * Z2Z2, X2.e * Z1Z1
            S1, S2 = Y1.e * Z2.e * Z2Z2, Y2.e * Z1.e * Z1Z1
            nz = z3.And(z3.Not(D.iszero(Z1.e)), z3.Not(D.iszero(Z2.e)))
            same_pt = z3.And(nz, D.iszero(U1 - U2), D.iszero(S1 - S2))
            dx, dy, dz = jac_double_spec(X1.e, Y1.e, Z1.e, a)
            differs = z3.Or(X3 != dx, Y3 != dy, Z3 != dz)
            # (i) with a = 0 the equal-operands branch is the tangent law
            chk.must_unsat('%s.add_assign equal-operands branch = tangent law when a = 0' % gname,
                           z3.And(same_pt, a == 0, differs), group='add-validity')
            # (ii) chord branch is independent of a (same identities as C01): X3*Z^2-form identities
            H = U2 - U1
            chord = z3.And(nz, z3.Not(z3.And(D.iszero(U1 - U2), D.iszero(S1 - S2))))
            rr = 2 * (S2 - S1)
            I = 4 * H * H
            J = H * I
            V = U1 * I
            cx = rr * rr - J - 2 * V
            cy = rr * (V - cx) - 2 * S1 * J
            cz = 2 * Z1.e * Z2.e * H
            chk.must_unsat('%s.add_assign chord branch = add-2007-bl (no dependence on a)' % gname,
                           z3.And(chord, z3.Or(X3 != cx, Y3 != cy, Z3 != cz)), group='add-validity')
            on_Eiso = [s_ for s_ in adds if s_[1] == 'Eiso']
            key = 'map2_to_curve:group-op-on-isogenous-curve:' + gname
            if on_Eiso:
                # (iii) a group operation on E' (a' != 0): add_assign's equal-operands branch / double() use the a = 0 doubling, which is
                #       the tangent law only when a = 0 ...
                name = '%s: add_assign/double on the isogenous curve (a != 0) is the tangent law for equal operands' % gname
                chk.must_unsat(name, z3.And(same_pt, a != 0, differs), group='add-validity-Eiso')
                # ... so every such call site needs operands that are PROVABLY distinct under its path condition (SSWU is not injective:
                #     distinct inputs may have equal images, so u0 != u1 proves nothing)
                for k_, s_ in enumerate(on_Eiso):
                    pcs = z3.And(*[C.mk(p_) for p_ in s_[4]]) if s_[4] else z3.BoolVal(True)
                    chk.must_unsat('%s: operands of %s #%d on the isogenous curve are provably distinct under the path condition' % (gname, s_[0], k_),
                                   z3.And(pcs, s_[2] == s_[3]), group='add-validity-Eiso')
                findings.append((gname, 'op-on-Eiso', name, key))
            chk.add_executor(exr)
        # ground: a' != 0 for both isogenous curves (read from the crate constants)
        ex0 = C.new_executor(ctx, [])
        st = State()
        from mirsym.models import _const_limbs
        a1 = ex0.named_const(st, 'osswu_map::g1::ELLP_A')
        a2 = ex0.named_const(st, 'osswu_map::g2::ELLP_A')
        a1v = ref.from_mont(_int(_const_limbs(a1)))
        a2v = tuple(ref.from_mont(_int(_const_limbs(x))) for x in a2.f)
        chk.ground("E1' coefficient a' (ELLP_A) equals the RFC value and is non-zero", a1v == ref.E1P_A and a1v != 0, hex(a1v))
        chk.ground("E2' coefficient a' (ELLP_A) equals the RFC value 240*I and is non-zero", a2v == ref.E2P_A and a2v != (0, 0), str(a2v))
        chk.bounds = {'loops': 'none', 'inputs': 'all u, (u0,u1): uninterpreted field elements; all Jacobian triples and every curve coefficient a for the add analysis'}
        chk.assumptions += ['osswu_map returns a point of E\' (C15), isogeny_map is the isogeny E\'->E and a homomorphism (C16), clear_h = [h_eff] (C17)',
                            'add_assign on E (a = 0) is the group law (C01)']
        chk.trusted += ['rustc MIR printer', 'mirsym', 'z3', 'native replay binary built from /repo with feature verif']
    try:
        _symbolic()
    except Exception as e_:
        # the native differential below still runs: it is the replay target for whatever the symbolic part could not encode
        ctx.inconclusive('encoder: %s' % e_)
    chk.discharge()

    # ---- native differential replay (always): special pairs + seeded random ones, both profiles
    rnd = random.Random(ctx.seed)
    pairs1, pairs2 = [], []
    u = rnd.randrange(2, ref.Q)
    v = rnd.randrange(2, ref.Q)
    for (x, y) in [(5, 5), (u, u), (u, ref.Q - u), (0, 0), (u, 0), (u, v), (1, ref.Q - 1)]:
        pairs1.append((x, y))
    w = (rnd.randrange(ref.Q), rnd.randrange(ref.Q))
    w2 = (rnd.randrange(ref.Q), rnd.randrange(ref.Q))
    for (x, y) in [((5, 7), (5, 7)), (w, w), (w, ref.f2_neg(w)), ((0, 0), (0, 0)), (w, (0, 0)), (w, w2)]:
        pairs2.append((x, y))
    # distinct inputs whose SSWU images coincide: x0(u) depends on u only through xi*u^2 via t^2 + t, so u1^2 = -1/xi - u0^2 with
    # sgn0(u1) = sgn0(u0) gives the same x0 (images coincide when g(x0) is a square; both cases are replayed)
    inv11 = pow(11, -1, ref.Q)
    found = 0
    for u0 in range(2, 200):
        t = (-inv11 - u0 * u0) % ref.Q
        r_ = ref.fq_sqrt(t)
        if r_ is None:
            continue
        if (r_ & 1) != (u0 & 1):
            r_ = ref.Q - r_
        pairs1.append((u0, r_))
        found += 1
        if found == 4:
            break
    xi2inv = ref.f2_inv(ref.SSWU_Z2)
    found = 0
    for k_ in range(2, 200):
        u0 = (k_, 7)
        t = ref.f2_sub(ref.f2_neg(xi2inv), ref.f2_sqr(u0))
        r_ = ref.f2_sqrt(t)
        if r_ is None:
            continue
        sg = lambda z_: (z_[0] & 1) if z_[0] != 0 else (z_[1] & 1)
        if sg(r_) != sg(u0):
            r_ = ref.f2_neg(r_)
        pairs2.append((u0, r_))
        found += 1
        if found == 4:
            break
    cmds = ['g1_map2 %x %x' % p for p in pairs1] + ['g2_map2 %x %x %x %x' % (p[0][0], p[0][1], p[1][0], p[1][1]) for p in pairs2]
    native_fail = {}
    for profile in ('dev', 'release'):
        n = load.Native(profile)
        try:
            outs = n.run(cmds)
        finally:
            n.close()
        for c, o in zip(cmds, outs):
            ok = ('insub=true' in o and 'equals_map_plus_map=true' in o and 'oncurve=true' in o and 'equals_stage_composition=true' in o)
            if not ok:
                native_fail.setdefault(c, {})[profile] = o
    chk.extra['native_replays'] = {'commands': len(cmds), 'profiles': ['dev', 'release'], 'failing': native_fail}

    # ---- verdicts
    for o in chk.failed():
        if o.group == 'add-validity-Eiso':
            gname = o.name[:2]
            key = 'map2_to_curve:group-op-on-isogenous-curve:' + gname
            # the solver shows that an addition / doubling on E' can meet equal operands where the a = 0 doubling is not the group law;
            # concrete triggers through the public API: equal inputs, or distinct inputs with coinciding SSWU images
            trig = [c for c in native_fail if c.startswith(gname.lower() + '_map2')]
            if trig:
                o.handled = True
                ctx.violation(key, '%s map2_to_curve: a group operation on the isogenous curve (a != 0) falls into the a = 0 doubling for operands that are '
                              'not provably distinct; result off-curve / not in the subgroup (release) or debug_assert panics (dev)' % gname,
                              {'solver_model': o.model, 'obligation': o.name, 'native': {c: native_fail[c] for c in trig[:4]},
                               'replay_cmd': 'build /verif/replay against /repo and feed: ' + trig[0]})
            else:
                ctx.inconclusive('solver reports an E\' group operation whose operands may coincide, but no native trigger was found: encoder/model mismatch or unreachable')
        elif o.group in ('composition', 'add-validity', 'no-panic'):
            o.handled = True
            ctx.violation('map_to_curve:' + o.name[:60], 'map_to_curve composition/validity obligation fails: ' + o.name,
                          {'obligation': o.name, 'model': o.model})
    # native failures not explained by a solver finding are violations in their own right
    for c, res in native_fail.items():
        gname = c[:2].upper()
        if any(o.group == 'add-validity-Eiso' and o.name.startswith(gname) and o.result == 'sat' for o in chk.obs):
            continue
        ctx.violation('map2_to_curve:native:' + c[:40], 'native run disagrees with RFC composition: %s -> %s' % (c, res), {'cmd': c, 'result': res})
    for g in chk.grounds:
        if not g[1]:
            chk.ground_handled = getattr(chk, 'ground_handled', {})
            chk.ground_handled[g[0]] = True
            ctx.violation('map_to_curve-ground:' + g[0][:30], 'constant mismatch: %s (%s)' % (g[0], g[2]), {'fact': g[0], 'detail': g[2]})
    for f in findings:
        if f[1] == 'typing':
            ctx.violation('map_to_curve:typing:' + f[0], 'stage applied on the wrong curve: ' + f[2], {'what': f[2]})


def _equal_args(cmd):
    p = cmd.split()[1:]
    h = len(p) // 2
    return p[:h] == p[h:]


def _int(limbs):
    return sum(x << (64 * i) for i, x in enumerate(limbs))


def replay(ctx, path):
    import json
    r = json.load(open(path))
    cmds = list((r.get('native') or {}).keys()) or [r.get('cmd')]
    bad = 0
    for profile in ('dev', 'release'):
        n = load.Native(profile)
        try:
            outs = n.run(cmds)
        finally:
            n.close()
        for c, o in zip(cmds, outs):
            ok = ('insub=true' in o and 'equals_map_plus_map=true' in o and 'equals_stage_composition=true' in o)
            print(profile, c, '->', o)
            bad += 0 if ok else 1
    if bad:
        print('VIOLATION property=C14 replay=%s' % path)
        return 1
    return 0
