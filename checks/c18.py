"""C18  square roots, quadratic character, sgn0 and ordering are exact (partial; see level_note).

K-bits: sgn0 / negate_if / Ord on Fq and Fq2 for all canonical values (Kani).
S-euf/ring: Fq2::sqrt conforms to Adj--Rodriguez-Henriquez Alg. 9 (structure as ring-domain identities with pow and Frobenius
uninterpreted, exponent literals checked), Fq2::legendre = legendre_Fq(norm), norm = c0^2 + c1^2.
Ground: the derive parameters behind Fq/Fr sqrt (S, ROOT_OF_UNITY, GENERATOR) in C08's constant facts."""
import z3
from mirsym import ref, models
from mirsym.sym import State, FE, Agg, Enum, Ref, BV, Inconclusive, UNIT
from mirsym.models import deref, _const_limbs, _limbs
from . import common as C
from . import kani_common as K
from mirsym.models import canon_poly as D_canon


def fq2_sqrt(ctx, ids):
    chk = ctx.chk
    D = models.RingDomain(r'fq2::Fq2', 'K2')
    pows = {}
    FROB = z3.Function('frobenius_1', z3.IntSort(), z3.IntSort())

    def h_pow(ex, st, m, a):
        x = D.coerce(deref(ex, st, a[0]))
        limbs = _limbs(ex, st, a[1])
        e = sum(l.v << (64 * i) for i, l in enumerate(limbs))
        if e not in pows:
            pows[e] = z3.Function('pow_%d' % len(pows), z3.IntSort(), z3.IntSort())
        return FE(x.ty, pows[e](C.zi(x.e)))

    def h_frob(ex, st, m, a):
        x = D.coerce(deref(ex, st, a[0]))
        k = a[1]
        if not (k.concrete and k.v == 1):
            raise Inconclusive('unexpected Frobenius power in Fq2::sqrt')
        ex.store(st, a[0], FE(x.ty, FROB(C.zi(x.e))))
        return UNIT
    extra = [(r'<fq2::Fq2 as (?:ff::)?Field>::pow::<.+>', h_pow), (r'<fq2::Fq2 as (?:ff::)?Field>::frobenius_map', h_frob)]
    # code may look at the components of an Fq2 value: uninterpreted projections into an abstract Fq with  a = 0 <=> c0 = 0 and c1 = 0
    Dc = models.RingDomain(r'fq::Fq', 'K2c')
    CMP = [z3.Function('c0_of', z3.IntSort(), z3.IntSort()), z3.Function('c1_of', z3.IntSort(), z3.IntSort())]
    ex = C.new_executor(ctx, extra + D.models() + Dc.models())
    chk.axioms += [D.isz(z3.IntVal(0)), z3.Not(D.isz(z3.IntVal(1)))]
    projected = []

    def fe_field(v, i):
        if isinstance(v, FE) and v.ty == 'fq2::Fq2' and i in (0, 1):
            projected.append(C.zi(v.e))
            return FE('fq::Fq', CMP[i](C.zi(v.e)))
        return None
    ex.fe_field = fe_field
    consts2 = {}

    def hook(v):
        def comp(c):
            if isinstance(c, FE) and isinstance(c.e, int):
                return c.e % ref.Q
            l = _const_limbs(c)
            if l is None:
                return None
            return ref.from_mont(sum(x << (64 * i) for i, x in enumerate(l)))
        val = (comp(v.f[0]), comp(v.f[1]))
        if val[0] is None or val[1] is None:
            return None
        if val == (0, 0):
            return FE('fq2::Fq2', 0)
        if val == (1, 0):
            return FE('fq2::Fq2', 1)
        if val not in consts2:
            consts2[val] = z3.Int('K2_c%d' % len(consts2))
        return FE('fq2::Fq2', consts2[val])
    ex.add_adt_hook(r'fq2::Fq2', hook)
    a = z3.Int('a')
    st = State()
    ra = ex.alloc(st, FE('fq2::Fq2', a))
    res = ex.call(st, '<fq2::Fq2 as ff::SqrtField>::sqrt', [ra])
    for t_ in [a] + projected:
        chk.axioms.append(D.isz(D_canon(t_)) == z3.And(Dc.iszero(CMP[0](t_)), Dc.iszero(CMP[1](t_))))
    q = ref.Q
    e1, e2 = (q - 3) // 4, (q - 1) // 2
    chk.shape('Fq2::sqrt exponent literals are (q-3)/4 and (q-1)/2', set(pows) == {e1, e2}, str([hex(e)[:20] for e in pows]))
    chk.shape('Fq2::sqrt constants: -1 and u', set(consts2) == {(q - 1, 0), (0, 1)}, str(list(consts2)))
    if set(pows) != {e1, e2} or set(consts2) != {(q - 1, 0), (0, 1)}:
        return
    P1, P2 = pows[e1], pows[e2]
    NEG1, Uu = consts2[(q - 1, 0)], consts2[(0, 1)]
    a1 = P1(a)
    alpha = a1 * a1 * a
    a0 = FROB(alpha) * alpha
    zero = D.iszero(a)
    none = D.iszero(a0 - NEG1)
    special = D.iszero(alpha - NEG1)
    chk.must_unsat('Fq2::sqrt: None iff a != 0 and a0 = alpha^q * alpha = -1 (alpha = a1^2 a, a1 = a^((q-3)/4))', z3.Xor(res.disc == 0, z3.And(z3.Not(zero), none)), group='case-structure')
    out = res.payload['Some'][0].e
    ids.ident('Fq2::sqrt(0) = 0', [out], [0], 'sqrt-structure', cond=zero)
    ids.ident('Fq2::sqrt: alpha = -1  =>  result = u * a1 * a', [out], [a1 * a * Uu], 'sqrt-structure', cond=z3.And(z3.Not(zero), z3.Not(none), special))
    ids.ident('Fq2::sqrt: otherwise result = (1 + alpha)^((q-1)/2) * a1 * a', [out], [a1 * a * P2(alpha + 1)], 'sqrt-structure',
              cond=z3.And(z3.Not(zero), z3.Not(none), z3.Not(special)))
    chk.add_executor(ex)
    # legendre and norm over the leaf Fq
    ex2, D1 = C.ring_executor(ctx, ty_pat=r'fq::Fq', name='L1')
    LEG = z3.Function('legendre_Fq', z3.IntSort(), z3.IntSort())
    seen = {}

    def h_leg(ex, st, m, a):
        x = D1.coerce(deref(ex, st, a[0]))
        seen['arg'] = x.e
        return Enum('LegendreSymbol', z3.BitVec('leg', 64), {'Zero': (), 'QuadraticResidue': (), 'QuadraticNonResidue': ()})
    ex2.leaf_ops.insert(0, (__import__('re').compile(r'<fq::Fq as (?:ff::)?SqrtField>::legendre'), h_leg))
    c0, c1 = z3.Int('c0'), z3.Int('c1')
    st = State()
    rv = ex2.alloc(st, Agg('fq2::Fq2', (FE('fq::Fq', c0), FE('fq::Fq', c1))))
    n = ex2.call(st, 'fq2::Fq2::norm', [rv])
    ids.ident('Fq2::norm = c0^2 + c1^2', [n.e], [c0 * c0 + c1 * c1], 'sqrt-structure')
    lg = ex2.call(st, '<fq2::Fq2 as ff::SqrtField>::legendre', [rv])
    ids.ident('Fq2::legendre = legendre_Fq(norm)', [seen.get('arg', 0)], [c0 * c0 + c1 * c1], 'sqrt-structure')
    chk.ground('Fq2::legendre returns the symbol of the norm unchanged', isinstance(lg, Enum) and str(lg.disc) == 'leg')
    chk.add_executor(ex2)


def native_differential(ctx):
    """the real Fq2::sqrt (native release + dev builds) on inputs chosen per branch class, against Euler's criterion computed here:
    Some(b) with b^2 = a for squares, None for non-squares."""
    import random
    from mirsym import load
    chk = ctx.chk
    q = ref.Q
    rnd = random.Random(ctx.seed * 17 + 3)
    ins = [(0, 0), (1, 0), (q - 1, 0), (4, 0), (5, 0), (q - 4, 0), (0, 1), (0, 2), (0, q - 1), (0, 7), (0, rnd.randrange(q)), (1, 1), (2, 1)]
    for _ in range(6):
        z_ = (rnd.randrange(q), rnd.randrange(q))
        ins.append(z_)
        ins.append(ref.f2_sqr(z_))
    # non-residues of Fq embedded in Fq2 (alpha = -1 branch) and elements of norm non-residue
    ins += [(11, 0), (q - 11, 0)]
    # Alg. 9 branches on alpha = a^((q-1)/2), an element of norm +-1.  One input for every alpha with a SPECIAL COMPONENT (a coefficient
    # equal to 0, 1 or -1): (+-1, 0), (0, +-1) [norm 1] and (+-1, +-sqrt(-2)) [norm -1, non-squares] -- a test that inspects only one
    # coefficient of alpha confuses exactly these with the cases it means.  Construction (Hilbert 90): for beta = alpha^2 (norm 1),
    # c = 1 + beta (or u when beta = -1) has c^(1-q) = beta, so d = 1/c has d^((q-1)/2) = +-alpha; multiply by -1 (a non-residue of Fq,
    # q = 3 mod 4) to fix the sign; scaling by squares of Fq does not change alpha.
    s2 = ref.fq_sqrt((-2) % q)
    alphas = [(1, 0), (q - 1, 0), (0, 1), (0, q - 1)]
    if s2 is not None:
        alphas += [(q - 1, s2), (q - 1, q - s2), (1, s2), (1, q - s2)]
    built = 0
    for al in alphas:
        beta = ref.f2_sqr(al)
        c = ref.f2_add(ref.F2_ONE, beta)
        if c == ref.F2_ZERO:
            c = (0, 1)
        d = ref.f2_inv(c)
        t = ref.f2_pow(d, (q - 1) // 2)
        if t == ref.f2_neg(al):
            d = ref.f2_neg(d)
            t = ref.f2_pow(d, (q - 1) // 2)
        if t != al:
            continue
        built += 1
        ins.append(d)
        k_ = rnd.randrange(2, q)
        ins.append(ref.f2_mul(d, (k_ * k_ % q, 0)))
    chk.extra['alpha_class_inputs'] = built
    cmds = ['fq2_sqrt %x %x' % z_ for z_ in ins]
    bad = {}
    for profile in ('release', 'dev'):
        n = load.Native(profile)
        try:
            outs = n.run(cmds)
        finally:
            n.close()
        for z_, c_, o in zip(ins, cmds, outs):
            sq = ref.f2_is_square(z_)
            parts = o.split()
            ok = False
            if parts and parts[0] == 'none':
                ok = not sq
            elif parts and parts[0] == 'some' and len(parts) == 3:
                b = (int(parts[1], 16), int(parts[2], 16))
                ok = sq and ref.f2_sqr(b) == (z_[0] % q, z_[1] % q)
            if not ok:
                bad.setdefault(c_, {})[profile] = o[:120]
    chk.extra['native_differential'] = {'inputs': len(cmds), 'failing': len(bad)}
    chk.ground('native Fq2::sqrt: Some(b) with b^2 = a exactly for squares (Euler), None otherwise, on %d branch-class / seeded inputs, both builds' % len(cmds), not bad, str(list(bad.items())[:2])[:300])
    if bad:
        chk.ground_handled = getattr(chk, 'ground_handled', {})
        chk.ground_handled[chk.grounds[-1][0]] = True
        c0 = sorted(bad)[0]
        ctx.violation('sqrt-native:fq2', 'Fq2::sqrt is wrong on %d inputs, e.g. %s -> %s' % (len(bad), c0, bad[c0]), {'failing_inputs': bad, 'replay_cmd': 'build /verif/replay against /repo and feed: ' + c0})


def run(ctx):
    chk = ctx.chk
    ctx.explanation = ('Kani/CBMC over sgn0 / ordering code for all canonical values; ring-domain conformance of Fq2::sqrt to Alg. 9 with pow and Frobenius '
                       'uninterpreted; ground facts for exponents and constants')
    ids = C.Identities(ctx, 'sqrt')
    only = getattr(ctx, 'only', None)
    if not only or 'S' in only:
        try:
            fq2_sqrt(ctx, ids)
        except Inconclusive as e:
            ctx.inconclusive('fq2_sqrt: encoder: %s' % e)
        chk.discharge()
        ids.settle()
        C.settle_structural(ctx, ('case-structure',), 'sqrt')
        native_differential(ctx)
    if not only or 'K' in only:
        K.run_harnesses(ctx, 'c18')
        K.report_failures(ctx, 'sgn0-order')
    chk.assumptions += ['outside the claim (trusted, cited): correctness of Alg. 9 itself and of the derive-generated Fq (q = 3 mod 4) and Fr (Tonelli-Shanks, 2-adicity 32) '
                        'square roots / Legendre symbols for all inputs: pow loops over 255/381-bit fields; their parameters are ground-checked in C08',
                        'Kani stub: Fq::into_repr is the identity (canonical integer held directly; the reduction is C08 S-lia)']
    chk.trusted += ['Kani 0.68 / CBMC 6.11', 'rustc MIR printer', 'mirsym', 'z3']
    for g_ in chk.grounds:
        if not g_[1]:
            chk.ground_handled = getattr(chk, 'ground_handled', {})
            chk.ground_handled[g_[0]] = True
            ctx.violation('sqrt-ground:' + g_[0][:40], 'fact fails: %s (%s)' % (g_[0], g_[2]), {'fact': g_[0], 'detail': g_[2]})


def replay(ctx, path):
    run(ctx)
    return 1 if ctx.chk.violations else 0
