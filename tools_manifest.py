#!/usr/bin/env python3
"""regenerates MANIFEST.json from the table below (kept in one place so it stays valid)"""
import json, os
HERE = os.path.dirname(os.path.abspath(__file__))

CHECKS = {
 'C09': dict(level='other', engine='S-ring',
   technique='symbolic execution of rustc MIR over an abstract commutative ring; polynomial identities and case-split equivalences decided by z3 (SMT, non-linear integer arithmetic + EUF)',
   text='Every Fq2/Fq6/Fq12 operation (add, sub, negate, double, mul, square, inverse, mul_by_nonresidue, norm, conjugate, sparse products, Frobenius with symbolic power) is executed from the compiler MIR with Fq abstracted to a commutative ring; the solver shows the outputs equal schoolbook arithmetic in the quotient rings as polynomial identities (valid for every ring, so no field-size bound), Frobenius coefficient tables are checked as exact integer facts.',
   note='Assumes Fq is a commutative ring/field (C08) and irreducibility of the tower polynomials (numeric Euler criteria). Trusted: MIR printer, mirsym executor and leaf models, z3.',
   ref='6/C09'),
 'C12': dict(level='other', engine='S-exp',
   technique='symbolic execution of rustc MIR in the exponent domain of Fq12^*; resulting exponent compared with 3(q^12-1)/r by z3 integer queries',
   text='final_exponentiation (with nested exp_by_x) is executed from MIR on g^e for a formal generator g of the cyclic group Fq12^* and a SYMBOLIC integer e: values are g^(c e) with concrete c, and every data-dependent test (is_zero, ==, Fq6 halves zero) is a congruence on e, so shortcuts for subfield / w*Fq6 / unitary inputs fork the execution. Without such branches the single resulting exponent is shown congruent to 3(q^12-1)/r modulo q^12-1, divisible by q^d-1 for d=1,2,4,6, killed by r; with them the obligation is E(e) e = (3(q^12-1)/r) e mod q^12-1 for every e on every branch. None iff input zero. Counterexamples are replayed natively on structured inputs (0, +-1, u, v, w, Fq/Fq2/Fq6 elements, w*Fq6, random) against f^(3(q^12-1)/r) from the reference tower.',
   note='Assumes the action of Fq12 mul/square/inverse/conjugate/Frobenius/pow on exponents (C09) and the contract of Field::pow. All units and zero are covered; no loop bound other than the 64-bit pow exponent handled as a leaf.',
   ref='6/C12'),
}

CHECKS.update({
 'C14': dict(level='other', engine='S-euf + S-ring + native replay',
   technique='symbolic execution of rustc MIR with uninterpreted stage functions (EUF) + ring-domain analysis of add_assign with symbolic curve coefficient, decided by z3; counterexamples replayed natively',
   text='The blanket MapToCurve impl is executed from MIR with sswu/iso/clear_h/add as uninterpreted functions over curve-tagged points; z3 shows the result term is the RFC composition (modulo the isogeny homomorphism law) and that every add_assign call site is valid on the curve its operands live on, by analysing the real add_assign MIR with a symbolic coefficient a (the equal-operands branch is the tangent law only for a=0). Code that computes with the inputs first (field operations are uninterpreted too) is covered. Special pairs (u,u), (u,-u), (0,0), colliding SSWU images, random are replayed natively in dev and release against map(u0)+map(u1).',
   note='Stages themselves are C15/C16/C17; add on E is C01. Found a genuine defect (map2_to_curve(u,u)), repaired by a fix: commit; see known_findings.json.',
   ref='6/C14, 7'),
 'C17': dict(level='other', engine='S-exp',
   technique='symbolic execution of rustc MIR in the exponent domain (abelian-group abstraction) with a symbolic integer exponent; linear integer identities decided by z3',
   text='chain_z, chain_h2_eff and ClearH for G1/G2 are executed from MIR on a point with symbolic exponent e; z3 shows the result is h_eff*e for independent literals of h_eff (G1: 0xd201000000010001, G2: the 636-bit RFC constant = 3(x^2-1)h2), hence additive and O -> O. A second pass runs the code on a generator of SYMBOLIC FINITE order m | #E (m given by its prime exponents over the factorisation of h*r, so every is_zero / == the code may apply to an intermediate point is a linear constraint) and shows m | (c_result - h_eff) on every branch: points of small order included. A counterexample order is replayed natively on a point of exactly that order.',
   note='Assumes curve operations form an abelian group (C01); that [h_eff] lands in the order-r subgroup is group-structure theory (RFC 9380 8.8), trusted.',
   ref='6/C17'),
})

CHECKS.update({
 'C01': dict(level='other', engine='S-ring + K-toy',
   technique='symbolic execution of rustc MIR over an abstract commutative ring with z3 deciding polynomial identities per case of the group law; Kani/CBMC bounded model checking of the same macro over toy prime fields',
   text='G1 and G2 instantiations of curve_impl! (double, add_assign, add_assign_mixed, negate, ==, conversions, default sub_assign[_mixed]) are executed from MIR over an abstract ring; per case (identity operands, equal points, inverse points, generic) z3 shows the outputs equal the chord/tangent law written with explicit denominators and that the code\'s case split is the specification\'s. The same macro body instantiated over F13 (and F31 in thorough) is model-checked by Kani against an affine reference for all points in all Jacobian representatives, incl. batch_normalization on slices of length 0..3.',
   note='Assumes Fq/Fq2 are fields (C08/C09). Field-specific implications (same affine point <=> cross products equal) are decided on real (toy) fields by Kani, identities hold over every ring. Toy primes <= 31, batch vectors <= 3 are the stated bounds.',
   ref='6/C01'),
 'C02': dict(level='other', engine='S-exp/bv',
   technique='symbolic execution of rustc MIR in the exponent domain with bit-vector scalars, z3 QF_BV; inductive steps at loop-head cut points for wNAF',
   text='mul_assign, affine mul (mul_bits), precomp_3+mul_precomp_3, precomp_256+mul_precomp_256 for G1 and G2 are executed from MIR with all 256 scalar bits symbolic; z3 shows result exponent = k. wnaf_form (real FrRepr limb code) by one inductive step of the loop body for every window 2..=22 (exact halving, digit shape, bound, ranking, no panic), wnaf_exp and wnaf_table by inductive steps with a symbolic table, recommendations in 2..=22 for all inputs. Every path is additionally run natively on special bases (identity, generator, subgroup point, non-member) and structured scalars against the reference curve arithmetic (replay target; supplementary).',
   note='Group operations assumed to act as an abelian group (C01). wnaf_table executed completely for windows <= 8, by induction step for all; Wnaf context: buffers are truncated at entry of wnaf_table/wnaf_form (checked from junk state).',
   ref='6/C02'),
 'C10': dict(level='other', engine='S-exp/bv',
   technique='symbolic execution of rustc MIR with one inductive step per Pippenger window position (cut point at the outer loop head), symbolic bucket indices, unwinding obligations; z3 QF_BV',
   text='sum_of_products_pippinger: from an arbitrary accumulator and identity buckets one execution of the real loop body is shown to produce res\' = 2^d res + sum digit_i e_i, buckets identity again, next position per schedule, for all scalars < 2^255; window arithmetic facts close the induction; the step is also run with linearly DEPENDENT points ([P,-P], [P,P,-2P]) so that running sums of the reduction can pass through the identity. Digit extraction/index safety/max_bucket for every window 1..=20 with a SYMBOLIC bit position 0..=255 (all three extraction branches, recorded bucket updates, soundness and completeness) in both tiers. find_pippinger_window in 1..=16 and monotone for every usize; sum_of_products delegates with min length; precomp_256 variant for all 256-bit scalars. Every window / entry point / the table variant is additionally run natively on point multisets with identities, duplicates, inverse points and mismatched lengths against the reference curve arithmetic (replay target; supplementary).',
   note='Full step incl. reduction: quick windows 1..4 (n<=3) at one position per control-flow class; thorough windows 1..8 (5..8 as optional ladder rungs), n = 3 for windows 1..3, one position per control-flow class (and digit extraction again at concrete class positions of nine windows); wider position sweeps were tried and never finished on this machine. Windows 5..8 are optional ladder rungs of the thorough tier (reported as not discharged when the 3.5 GB / 1200 s per-query budget does not suffice). Bucket reduction for windows 9..20 and n>3 outside the claim. Group law assumed (C01).',
   ref='6/C10'),
})

CHECKS.update({
 'C15': dict(level='other', engine='S-ring/exp/euf',
   technique='symbolic execution of rustc MIR over an abstract commutative ring with constants and addition chains abstracted (EUF); per-path polynomial identities by z3; exact chain exponents in the exponent domain',
   text='osswu_help and both osswu_map impls are executed from MIR; z3 shows per path (1+1 candidates for G1, 4+4 for G2, exceptional denominator, sign fix-up) that the output is the Jacobian triple specified by WB19/RFC 9380 F.2 and, through an on-curve lemma and the SWU key identity, that it satisfies the curve equation given the hypothesis the path tests; chain_pm3div4 / chain_p2m9div16 raise to exactly (q-3)/4 and (q^2-9)/16; constants (A\', B\', Z, sqrt(-Z^3), roots of unity, etas) satisfy their defining equations.',
   note='Trusted number theory: when g(x0) is a non-square the second candidate is a root (G1: Euler; G2: one eta matches), so the G2 terminal panic is unreachable. sgn0(-y) != sgn0(y) from C18.',
   ref='6/C15'),
 'C16': dict(level='other', engine='S-ring',
   technique='symbolic execution of rustc MIR over an abstract ring with SYMBOLIC coefficient tables (cut point after the Horner loops), polynomial identities by z3; exact polynomial arithmetic over Fq/Fq2 on the constants',
   text='eval_iso is executed from MIR for the G1 and G2 instantiations with symbolic X,Y,Z and symbolic coefficients at the real table lengths: the four homogenised polynomial values and the Jacobian recombination equal the rational map x->xnum/xden, y->y*ynum/yden for every representative; Z=0 and xden=0 give Z\'=0. The 55+15 constants satisfy ynum^2 (x^3+A\'x+B\') xden^3 = (xnum^3 + b xden^3) yden^2 identically in x, so the image lies on the target curve for every input.',
   note='Additivity (homomorphism) follows from the theorem that a rational map of elliptic curves fixing O is a homomorphism (trusted). Which of the finitely many such isogenies (automorphism twist) is pinned by the repo test vectors and by C06 native RFC vectors.',
   ref='6/C16'),
})

CHECKS.update({
 'C04': dict(level='other', engine='K-bits + S-ring + S-exp',
   technique='Kani/CBMC bounded model checking of the real decoders with all input bytes symbolic against an independent decision list; ring-domain symbolic execution of is_on_curve / get_point_from_x; exponent-domain check of the subgroup multiplier; z3',
   text='All four into_affine_unchecked and four into_affine decoders are model-checked for every byte string of length 48/96/192: classification (compression flag, infinity/sort flags, coordinate range, curve, subgroup - in that order) and parsed integers equal an independent decision list, never a panic, re-encoding reproduces accepted bytes. From MIR: is_on_curve <=> y^2 = x^3 + B with B = 4 / 4(1+u), get_point_from_x takes the root of x^3 + B selected by the flag, the subgroup test multiplies by exactly r.',
   note='Kani stubs: Fq::mul_assign/square no-ops and into_repr identity (C08 covers the real Montgomery code), sqrt and in_subgroup arbitrary oracles, fmt::format empty. Which coordinate label a range error carries is not checked (the property does not state it). sqrt finds a root whenever one exists: C18 scope note.',
   ref='6/C04'),
 'C05': dict(level='model_checking', engine='K-bits',
   technique='Kani/CBMC bounded model checking of the real encoders/decoders with all coordinate limbs and bytes symbolic against an independent byte-level encoder',
   text='from_affine / into_compressed / into_uncompressed for G1 and G2: bytes equal an independent big-endian ZCash-format encoder (c1 before c0, flag bits, sort flag iff y > -y in the lexicographic order), lengths 48/96/96/192, decode(encode(P)) = P, for every point incl. the identity in any affine representation (infinity flag with arbitrary residual coordinates), and for every byte string the decoders accept, re-encoding reproduces the bytes (injective, non-malleable).',
   note='Same stubs as C04; y != 0 assumed (no 2-torsion). Ord for Fq2 and negate are the real code.',
   ref='6/C05'),
 'C06': dict(level='other', engine='S-euf + native KAT',
   technique='EUF symbolic execution from MIR of the HashToCurve blanket impl and of the generic expanders / hash_to_field with the hash uninterpreted, decided by z3, failing obligations replayed natively; RFC 9380 known-answer vectors and an end-to-end differential hash_to_curve = map(hashlib hash_to_field)',
   text='hash_to_curve(msg,dst) = map2_to_curve(u0,u1) with (u0,u1) = hash_to_field(msg,dst,2) and encode_to_curve = map_to_curve(hash_to_field(msg,dst,1)[0]), exactly one call each, nothing else read, for G1 and G2. The hashing front end is decided here too (same obligations as C13: expand_message_xmd / _xof and hash_to_field equal RFC 9380 5.2/5.3 for every message / tag byte and every hash on a boundary grid incl. 255-byte tags). Four RFC 9380 appendix J vectors are reproduced in dev and release builds, and hash_to_curve / encode_to_curve of the native SHA-256, SHA-512 and SHAKE128 suites equal the native map applied to field elements computed with hashlib.',
   note='The RFC-level claim is the conjunction C13 and C14 and C15 and C16 and C17; the vectors pin constants and sign conventions end to end.',
   ref='6/C06'),
 'C07': dict(level='other', engine='S-euf/exp',
   technique='EUF / exponent-domain symbolic execution from MIR with z3; exact-integer ground facts',
   text='in_subgroup = is_on_curve && [r]P == O, is_on_curve <=> curve equation, subgroup test multiplies by exactly r, scale_by_cofactor multiplies by exactly h1 / h2 with h*r = #E(Fq) resp. the sextic-twist order recomputed from the trace, random() returns only cofactor-scaled non-identity points, generator literals on curve with order r. The four checked decoders (MIR, unchecked decoder / is_on_curve / in_subgroup uninterpreted, all encoding bytes symbolic) return Ok exactly when the unchecked decoder succeeded and the point passed the membership predicate; encodings of non-members are replayed through the native decoders.',
   note='Partial: closure of the whole safe API is an induction over C01/C02/C04/C10/C14/C17/C19 written in DESIGN.md, not a solver query; group structure Z/h x Z/r with gcd(h,r)=1 is used.',
   ref='6/C07'),
 'C08': dict(level='other', engine='K-bits + S-lia',
   technique='Kani/CBMC on the derive-generated limb code against u128 carry-chain references; linear-integer SMT obligations for Montgomery multiplication extracted from MIR (opaque limb products); exact-integer ground facts',
   text='FqRepr/FrRepr add_nocarry, sub_noborrow, mul2, div2, shl, shr (symbolic amount), num_bits, parity, zero, cmp, From<u64>, big/little-endian IO; Fq/Fr add, sub, negate, double, zero test, equality, from_repr acceptance (< modulus), char() for all limb values. Montgomery mul_assign, square and into_repr: (value before reduce)*2^(64n) = product + K*q and < 2q whenever operands are reduced, for all limb values, with the 64-bit lemma r + (r*INV)*q0 = 0 on bit-vectors. Every hard-coded Montgomery literal (R, R2, INV, B, -1, generators, 2^256, 2^192, GENERATOR, ROOT_OF_UNITY, S) equals its documented value.',
   note='Partial: inverse, pow, sqrt, legendre (loops over 381-bit data generated by ff_derive) are outside the claim. Non-linear glue stated: sum p_ij 2^(64(i+j)) = A*B and A,B<q => A*B <= (q-1)^2.',
   ref='6/C08'),
 'C11': dict(level='other', engine='S-monoid',
   technique='symbolic execution of the Miller-loop MIR over the free abelian group on formal line-evaluation generators; identity-operand patterns enumerated; exact vector comparison (no unknowns remain after execution)',
   text='Joint Miller loop = product of single-pair loops over the non-identity pairs for all 4^n identity patterns (n <= 2 quick, 3 thorough); each pair consumes exactly its own 68 coefficients in order (67 makes unwrap fail); single-loop schedule equals an independent transcription of the optimal-ate loop for |x|/2; G2Prepared::from_affine produces 68 coefficients in doubling/addition order; pairing / pairing_product / pairing_multi_product return the final exponentiation of the formal product of exactly the pairs (p_i, q_i) (one Miller loop or a product of several: both accepted), list lengths 0..3, 5, 15..18, 31..33, 64, 65, 100 (thorough up to 1000).',
   note='Partial: the value e(g1,g2)^(sum a_i b_i) needs bilinearity (C03, not applicable). Fq12 commutativity and sparse products from C09, multiplicativity of the final exponentiation from C12. No SMT query is needed here because execution over formal generators leaves no symbolic unknowns; stated as such.',
   ref='6/C11'),
 'C13': dict(level='model_checking', engine='S-euf + K-mock + K-bits',
   technique='MIR symbolic execution of the real generic expand_message_xmd / expand_message_xof / hash_to_field bodies with the hash function uninterpreted (absorb/output symbols), obligations decided by z3 and failing ones replayed natively through SHA-256/SHA-512/SHAKE128 against hashlib; Kani/CBMC bounded model checking of the same code over position-sensitive mock hashes and of from_okm / from_ro with a recording multiplication stub',
   text='expand_message_xmd and _xof equal an independent RFC 9380 5.3 transcription for every message byte, every tag byte and every hash function at a boundary grid of lengths (tags of 0, 1, 254 and 255 bytes, messages around the block size, output lengths around multiples of the digest size, 255 blocks served, anything above aborts); hash_to_field makes one expander call with count*L and applies from_ro to consecutive L-byte blocks (L = 48, 64, 128; counts 0..8); Fq::from_okm / Fr::from_okm = hi*2^256+lo / hi*2^192+lo for all 64/48-byte blocks, Fq2::from_ro takes c0 from the first 64 bytes.',
   note='Lengths come from a stated grid (concrete lengths, symbolic contents); SHA-2 / SHAKE internals are not modelled (uninterpreted in the S-euf part, mocks in Kani; a native differential against hashlib on the grid runs the real hashes as a supplementary oracle); the multiplier literals are C08 ground facts.',
   ref='6/C13'),
 'C18': dict(level='other', engine='K-bits + S-euf',
   technique='Kani/CBMC on sgn0 / ordering / negate_if for all canonical values; ring-domain conformance of Fq2::sqrt to Alg. 9 with pow and Frobenius uninterpreted; z3',
   text='Fq::sgn0 = parity, Fq2::sgn0 = parity of the first non-zero coefficient, negate_if, xor table, Ord for Fq = integer order, Ord for Fq2 lexicographic with c1 most significant, exactly one of y,-y larger and parities differ. Fq2::sqrt: exponent literals (q-3)/4 and (q-1)/2, a0 = alpha^q alpha, None iff a0 = -1, alpha = -1 special case multiplies by u, else by (1+alpha)^((q-1)/2), zero to zero; legendre = legendre_Fq(norm), norm = c0^2+c1^2. The native Fq2::sqrt is compared with the Euler criterion on branch-class inputs incl. one constructed input per special value of alpha = a^((q-1)/2).',
   note='Shape facts (which exponents / constants the code uses) make the check answer exit 2, never VIOLATION, when the algorithm is replaced. Partial: correctness (not conformance) of Alg. 9 and of the derive-generated Fq / Fr sqrt and legendre for all inputs is outside the claim (pow loops over 255/381-bit fields); their parameters are C08 ground facts.',
   ref='6/C18'),
 'C19': dict(level='model_checking', engine='K-bits',
   technique='Kani/CBMC bounded model checking of the real SerDes code with decoder/encoder oracles, stream contents and flag symbolic, lengths on a boundary grid',
   text='deserialize for G1Affine, G2Affine, G1, G2, Fr, Fq12 (lengths incl. truncation at every kind of boundary: 0, one short, exact, one extra, coefficient boundaries of Fq12): the CHECKED decoder is called (unchecked ones carry their own marker), Err on truncated input, on a flag contradicting the data, on non-reduced field values and whenever the decoder oracle rejects; consumes exactly 48/96/192/32/576 bytes on success; the decoder sees exactly the stream bytes; serialize writes exactly the encoder bytes; Fq12 coefficient order c0.c0.c0 ... c1.c2.c1; Fr round trip.',
   note='Concrete stream lengths from the stated grid; decoders/encoders themselves are C04/C05; G2 projective shares the code shape of G1 projective.',
   ref='6/C19'),
})

NOT_APPLICABLE = {
 'C03': 'bilinearity/non-degeneracy is a theorem about Miller functions of degree ~2^63 in the inputs; no bounded SMT/SAT query expresses it and the pairing code cannot be re-instantiated over a toy curve (DESIGN 6/C03)',
 'C20': 'quantifies over thread schedules; Kani/CBMC do not model std::thread and the mechanism is a fact about declarations, not a solver query (DESIGN 6/C20)',
}
PENDING = []

def main():
    checks = []
    for pid in sorted(CHECKS):
        c = CHECKS[pid]
        checks.append({
            'property_id': pid,
            'quick_cmd': './check %s' % pid,
            'thorough_cmd': './check %s --tier thorough' % pid,
            'evidence_file': '/verif/evidence/%s.json' % pid,
            'replay_cmd_template': './check %s --replay {path}' % pid,
            'engine': c['engine'],
            'level_claimed': {'category': c['level'], 'text': c['text'], 'design_ref': 'DESIGN.md ' + c['ref']},
            'level_note': c['note'],
            'technique': c['technique'],
        })
    na = [{'property_id': k, 'reason': v} for k, v in sorted(NOT_APPLICABLE.items())]
    for p in PENDING:
        if p not in CHECKS:
            na.append({'property_id': p, 'reason': 'check not built yet (work in progress; see DESIGN.md section 6 for the planned solver-based check)'})
    m = {
        'version': 1,
        'setup_cmd': 'python3-vt -c "import z3, sys; sys.path.insert(0, \'/verif\'); import mirsym.sym, mirsym.models, mirsym.harness; print(\'verif framework ok, z3\', z3.get_version_string())"',
        'hooks': {
            'guard': 'cargo feature `verif`',
            'enable': '--features verif (used by the Kani harness crate and the native replay binary; the MIR engine needs no hooks)',
            'baseline_off_cmd': 'cd /repo && (cargo nextest run --workspace --no-fail-fast --offline || cargo test --workspace --no-fail-fast --offline)',
            'source_commits': ['3959cfb'],
            'add_only': True,
        },
        'engines': [
            {'name': 'kani', 'path': '/verif/kani', 'serves_properties': ['C01', 'C04', 'C05', 'C08', 'C13', 'C18', 'C19'], 'kind_free_text': 'Kani 0.68 / CBMC 6.11 harness crate with a path dependency on a scratch copy of /repo (feature verif), unwinding assertions on, cover! vacuity witnesses'},
            {'name': 'mirsym', 'path': '/verif/mirsym', 'serves_properties': sorted(CHECKS), 'kind_free_text': 'symbolic executor for rustc MIR (regenerated from /repo on every run) producing SMT obligations for z3; ring / exponent / bit-vector / EUF domains'},
        ],
        'checks': checks,
        'not_applicable': sorted(na, key=lambda x: x['property_id']),
        'notes': 'Exit codes: 0 held, 1 VIOLATION (replayed), 2 inconclusive (never reported as a pass). Scratch data under $VERIF_SCRATCH (default /var/tmp/verif-scratch), removed on exit.',
    }
    json.dump(m, open(os.path.join(HERE, 'MANIFEST.json'), 'w'), indent=1)

if __name__ == '__main__':
    main()
