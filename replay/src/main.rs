//! Native replay / translator-validation binary: runs real pairing-plus code on concrete inputs.
//! Protocol: one command per stdin line `op hex hex ...`; one stdout line per command.
//! Field elements are canonical integers in hex (no 0x); a panic inside the library is reported as
//! `PANIC` for that line (the process keeps going).
use ff_zeroize::{Field, PrimeField, PrimeFieldRepr, SqrtField};
use pairing_plus::bls12_381::{Fq, Fq12, Fq2, Fq6, FqRepr, Fr, FrRepr, G1Affine, G2Affine, G1, G2};
use pairing_plus::hash_to_curve::HashToCurve;
use pairing_plus::hash_to_field::{ExpandMsgXmd, ExpandMsgXof};
use pairing_plus::map_to_curve::MapToCurve;
use pairing_plus::verif_hooks as vh;
use pairing_plus::{CurveAffine, CurveProjective, SubgroupCheck};
use std::io::{self, BufRead, Write};
use std::panic;

fn fq(s: &str) -> Fq {
    let mut limbs = [0u64; 6];
    let s = format!("{:0>96}", s);
    for i in 0..6 {
        limbs[5 - i] = u64::from_str_radix(&s[16 * i..16 * i + 16], 16).unwrap();
    }
    Fq::from_repr(FqRepr(limbs)).expect("field element out of range")
}
fn fr_repr(s: &str) -> FrRepr {
    let mut limbs = [0u64; 4];
    let s = format!("{:0>64}", s);
    for i in 0..4 {
        limbs[3 - i] = u64::from_str_radix(&s[16 * i..16 * i + 16], 16).unwrap();
    }
    FrRepr(limbs)
}
fn h(x: &Fq) -> String {
    let r = x.into_repr();
    let mut s = String::new();
    for l in r.as_ref().iter().rev() {
        s.push_str(&format!("{:016x}", l));
    }
    s
}
fn fq2(a: &[&str]) -> Fq2 {
    Fq2 { c0: fq(a[0]), c1: fq(a[1]) }
}
fn h2(x: &Fq2) -> String {
    format!("{} {}", h(&x.c0), h(&x.c1))
}
fn fq6(a: &[&str]) -> Fq6 {
    Fq6 { c0: fq2(&a[0..2]), c1: fq2(&a[2..4]), c2: fq2(&a[4..6]) }
}
fn h6(x: &Fq6) -> String {
    format!("{} {} {}", h2(&x.c0), h2(&x.c1), h2(&x.c2))
}
fn fq12(a: &[&str]) -> Fq12 {
    Fq12 { c0: fq6(&a[0..6]), c1: fq6(&a[6..12]) }
}
fn h12(x: &Fq12) -> String {
    format!("{} {}", h6(&x.c0), h6(&x.c1))
}
fn g1j(p: &G1) -> String {
    let (x, y, z) = p.verif_raw();
    format!("{} {} {}", h(&x), h(&y), h(&z))
}
fn g2j(p: &G2) -> String {
    let (x, y, z) = p.verif_raw();
    format!("{} {} {}", h2(&x), h2(&y), h2(&z))
}
fn g1a(p: &G1Affine) -> String {
    let (x, y, inf) = p.verif_raw();
    if inf { "inf".to_string() } else { format!("{} {}", h(&x), h(&y)) }
}
fn g2a(p: &G2Affine) -> String {
    let (x, y, inf) = p.verif_raw();
    if inf { "inf".to_string() } else { format!("{} {}", h2(&x), h2(&y)) }
}
fn opt<T, F: Fn(&T) -> String>(o: Option<T>, f: F) -> String {
    match o {
        Some(v) => format!("some {}", f(&v)),
        None => "none".to_string(),
    }
}

fn unhex(s: &str) -> Vec<u8> {
    if s == "-" {
        return vec![];
    }
    (0..s.len() / 2).map(|i| u8::from_str_radix(&s[2 * i..2 * i + 2], 16).unwrap()).collect()
}

fn run(op: &str, a: &[&str]) -> String {
    match op {
        // ---- tower
        "fq2_mul" => { let mut x = fq2(&a[0..2]); x.mul_assign(&fq2(&a[2..4])); h2(&x) }
        "fq2_square" => { let mut x = fq2(&a[0..2]); x.square(); h2(&x) }
        "fq2_inverse" => opt(fq2(&a[0..2]).inverse(), h2),
        "fq2_sqrt" => opt(fq2(&a[0..2]).sqrt(), h2),
        "fq2_frobenius" => { let mut x = fq2(&a[0..2]); x.frobenius_map(a[2].parse().unwrap()); h2(&x) }
        "fq6_mul" => { let mut x = fq6(&a[0..6]); x.mul_assign(&fq6(&a[6..12])); h6(&x) }
        "fq6_square" => { let mut x = fq6(&a[0..6]); x.square(); h6(&x) }
        "fq6_inverse" => opt(fq6(&a[0..6]).inverse(), h6),
        "fq6_frobenius" => { let mut x = fq6(&a[0..6]); x.frobenius_map(a[6].parse().unwrap()); h6(&x) }
        "fq12_mul" => { let mut x = fq12(&a[0..12]); x.mul_assign(&fq12(&a[12..24])); h12(&x) }
        "fq12_square" => { let mut x = fq12(&a[0..12]); x.square(); h12(&x) }
        "fq12_inverse" => opt(fq12(&a[0..12]).inverse(), h12),
        "final_exp" => {
            use pairing_plus::bls12_381::Bls12;
            use pairing_plus::Engine;
            opt(Bls12::final_exponentiation(&fq12(&a[0..12])), h12)
        }
        "fq12_frobenius" => { let mut x = fq12(&a[0..12]); x.frobenius_map(a[12].parse().unwrap()); h12(&x) }
        // ---- raw Jacobian group operations (inputs need not be on the curve)
        "g1_add" => { let mut p = G1::verif_from_raw(fq(a[0]), fq(a[1]), fq(a[2])); p.add_assign(&G1::verif_from_raw(fq(a[3]), fq(a[4]), fq(a[5]))); g1j(&p) }
        "g1_double" => { let mut p = G1::verif_from_raw(fq(a[0]), fq(a[1]), fq(a[2])); p.double(); g1j(&p) }
        "g1_add_mixed" => { let mut p = G1::verif_from_raw(fq(a[0]), fq(a[1]), fq(a[2])); p.add_assign_mixed(&G1Affine::verif_from_raw(fq(a[3]), fq(a[4]), a[5] == "1")); g1j(&p) }
        "g2_add" => { let mut p = G2::verif_from_raw(fq2(&a[0..2]), fq2(&a[2..4]), fq2(&a[4..6])); p.add_assign(&G2::verif_from_raw(fq2(&a[6..8]), fq2(&a[8..10]), fq2(&a[10..12]))); g2j(&p) }
        "g2_double" => { let mut p = G2::verif_from_raw(fq2(&a[0..2]), fq2(&a[2..4]), fq2(&a[4..6])); p.double(); g2j(&p) }
        "g1_into_affine" => g1a(&G1::verif_from_raw(fq(a[0]), fq(a[1]), fq(a[2])).into_affine()),
        "g2_into_affine" => g2a(&G2::verif_from_raw(fq2(&a[0..2]), fq2(&a[2..4]), fq2(&a[4..6])).into_affine()),
        // ---- hash-to-curve stages
        "g1_sswu" => g1j(&vh::g1_osswu_map(&fq(a[0]))),
        "g2_sswu" => g2j(&vh::g2_osswu_map(&fq2(&a[0..2]))),
        "g1_iso" => { let mut p = G1::verif_from_raw(fq(a[0]), fq(a[1]), fq(a[2])); vh::g1_isogeny_map(&mut p); g1j(&p) }
        "g2_iso" => { let mut p = G2::verif_from_raw(fq2(&a[0..2]), fq2(&a[2..4]), fq2(&a[4..6])); vh::g2_isogeny_map(&mut p); g2j(&p) }
        "g1_clear_h" => { let mut p = G1::verif_from_raw(fq(a[0]), fq(a[1]), fq(a[2])); vh::g1_clear_h(&mut p); g1a(&p.into_affine()) }
        "g2_clear_h" => { let mut p = G2::verif_from_raw(fq2(&a[0..2]), fq2(&a[2..4]), fq2(&a[4..6])); vh::g2_clear_h(&mut p); g2a(&p.into_affine()) }
        "g1_map" => { let p = <G1 as MapToCurve<G1>>::map_to_curve(&fq(a[0])).into_affine(); format!("{} insub={}", g1a(&p), p.in_subgroup()) }
        "g2_map" => { let p = <G2 as MapToCurve<G2>>::map_to_curve(&fq2(&a[0..2])).into_affine(); format!("{} insub={}", g2a(&p), p.in_subgroup()) }
        // map2 together with the RFC composition computed from the single-element map: map(u0) + map(u1)
        "g1_map2" => {
            let (u0, u1) = (fq(a[0]), fq(a[1]));
            let p = <G1 as MapToCurve<G1>>::map2_to_curve(&u0, &u1);
            let mut q = <G1 as MapToCurve<G1>>::map_to_curve(&u0);
            q.add_assign(&<G1 as MapToCurve<G1>>::map_to_curve(&u1));
            let pa = p.into_affine();
            // independent of src/map_to_curve.rs: the composition built from the single stages
            let mut s0 = vh::g1_osswu_map(&u0);
            vh::g1_isogeny_map(&mut s0);
            let mut s1 = vh::g1_osswu_map(&u1);
            vh::g1_isogeny_map(&mut s1);
            s0.add_assign(&s1);
            vh::g1_clear_h(&mut s0);
            let mut t0 = vh::g1_osswu_map(&u0);
            vh::g1_isogeny_map(&mut t0);
            vh::g1_clear_h(&mut t0);
            let single_ok = <G1 as MapToCurve<G1>>::map_to_curve(&u0) == t0;
            format!("{} insub={} oncurve={} equals_map_plus_map={} equals_stage_composition={}", g1a(&pa), pa.in_subgroup(), pa.verif_is_on_curve(), p == q, p == s0 && single_ok)
        }
        "g2_map2" => {
            let (u0, u1) = (fq2(&a[0..2]), fq2(&a[2..4]));
            let p = <G2 as MapToCurve<G2>>::map2_to_curve(&u0, &u1);
            let mut q = <G2 as MapToCurve<G2>>::map_to_curve(&u0);
            q.add_assign(&<G2 as MapToCurve<G2>>::map_to_curve(&u1));
            let pa = p.into_affine();
            let mut s0 = vh::g2_osswu_map(&u0);
            vh::g2_isogeny_map(&mut s0);
            let mut s1 = vh::g2_osswu_map(&u1);
            vh::g2_isogeny_map(&mut s1);
            s0.add_assign(&s1);
            vh::g2_clear_h(&mut s0);
            let mut t0 = vh::g2_osswu_map(&u0);
            vh::g2_isogeny_map(&mut t0);
            vh::g2_clear_h(&mut t0);
            let single_ok = <G2 as MapToCurve<G2>>::map_to_curve(&u0) == t0;
            format!("{} insub={} oncurve={} equals_map_plus_map={} equals_stage_composition={}", g2a(&pa), pa.in_subgroup(), pa.verif_is_on_curve(), p == q, p == s0 && single_ok)
        }
        // ---- scalar multiplication (generator times k) through the different paths
        // every scalar-multiplication path on one (point, scalar): `g1_mulpaths <x|inf> <y|-> k`, `g2_mulpaths <x.c0|inf> <x.c1> <y.c0> <y.c1> k`
        "g1_mulpaths" => {
            let p = if a[0] == "inf" { G1Affine::zero() } else { G1Affine::verif_from_raw(fq(a[0]), fq(a[1]), false) };
            let k = fr_repr(a[2]);
            let mut r1 = p.into_projective();
            r1.mul_assign(k);
            let r2 = p.mul(k);
            let mut w = pairing_plus::Wnaf::new();
            let r3 = w.base(p.into_projective(), 1).scalar(k);
            let mut w2 = pairing_plus::Wnaf::new();
            let r4 = w2.scalar(k).base(p.into_projective());
            let mut pre3 = [G1Affine::zero(); 3];
            p.precomp_3(&mut pre3);
            let r5 = p.mul_precomp_3(k, &pre3);
            let mut pre256 = vec![G1Affine::zero(); 256];
            p.precomp_256(&mut pre256);
            let r6 = p.mul_precomp_256(k, &pre256);
            format!("plain={} | affine={} | wnaf_base_first={} | wnaf_scalar_first={} | precomp_3={} | precomp_256={}", g1a(&r1.into_affine()), g1a(&r2.into_affine()),
                    g1a(&r3.into_affine()), g1a(&r4.into_affine()), g1a(&r5.into_affine()), g1a(&r6.into_affine()))
        }
        "g2_mulpaths" => {
            let p = if a[0] == "inf" { G2Affine::zero() } else { G2Affine::verif_from_raw(fq2(&a[0..2]), fq2(&a[2..4]), false) };
            let k = fr_repr(a[4]);
            let mut r1 = p.into_projective();
            r1.mul_assign(k);
            let r2 = p.mul(k);
            let mut w = pairing_plus::Wnaf::new();
            let r3 = w.base(p.into_projective(), 1).scalar(k);
            let mut w2 = pairing_plus::Wnaf::new();
            let r4 = w2.scalar(k).base(p.into_projective());
            let mut pre3 = [G2Affine::zero(); 3];
            p.precomp_3(&mut pre3);
            let r5 = p.mul_precomp_3(k, &pre3);
            let mut pre256 = vec![G2Affine::zero(); 256];
            p.precomp_256(&mut pre256);
            let r6 = p.mul_precomp_256(k, &pre256);
            format!("plain={} | affine={} | wnaf_base_first={} | wnaf_scalar_first={} | precomp_3={} | precomp_256={}", g2a(&r1.into_affine()), g2a(&r2.into_affine()),
                    g2a(&r3.into_affine()), g2a(&r4.into_affine()), g2a(&r5.into_affine()), g2a(&r6.into_affine()))
        }
        // multi-scalar multiplication: `g1_msm <w<k>|default|p256> <npts> <nsc> (x y | inf -)*npts k*nsc`
        "g1_msm" => {
            let (np, ns) = (a[1].parse::<usize>().unwrap(), a[2].parse::<usize>().unwrap());
            let mut pts = Vec::new();
            for i in 0..np {
                let (x, y) = (a[3 + 2 * i], a[4 + 2 * i]);
                pts.push(if x == "inf" { G1Affine::zero() } else { G1Affine::verif_from_raw(fq(x), fq(y), false) });
            }
            let reprs: Vec<[u64; 4]> = (0..ns).map(|i| fr_repr(a[3 + 2 * np + i]).0).collect();
            let scalars: Vec<&[u64; 4]> = reprs.iter().collect();
            let r = if a[0] == "default" {
                G1Affine::sum_of_products(&pts, &scalars)
            } else if a[0] == "p256" {
                let mut pre = vec![G1Affine::zero(); 256 * np];
                for i in 0..np {
                    pts[i].precomp_256(&mut pre[256 * i..256 * (i + 1)]);
                }
                G1Affine::sum_of_products_precomp_256(&pts, &scalars, &pre)
            } else {
                G1Affine::sum_of_products_pippinger(&pts, &scalars, a[0][1..].parse::<usize>().unwrap())
            };
            g1a(&r.into_affine())
        }
        "g1_window" => format!("{} {}", G1Affine::find_pippinger_window(a[0].parse::<usize>().unwrap()), G1Affine::find_pippinger_window_via_estimate(a[0].parse::<usize>().unwrap())),
        // checked point decoders on raw bytes: `decode <g1c|g1u|g2c|g2u> <hex>` -> "ok <affine>" | "err <error>"
        "decode" => {
            use pairing_plus::bls12_381::{G1Compressed, G1Uncompressed, G2Compressed, G2Uncompressed};
            use pairing_plus::EncodedPoint;
            let bytes = unhex(a[1]);
            match a[0] {
                "g1c" => { let mut e = G1Compressed::empty(); e.as_mut().copy_from_slice(&bytes); match e.into_affine() { Ok(p) => format!("ok {}", g1a(&p)), Err(x) => format!("err {:?}", x) } }
                "g1u" => { let mut e = G1Uncompressed::empty(); e.as_mut().copy_from_slice(&bytes); match e.into_affine() { Ok(p) => format!("ok {}", g1a(&p)), Err(x) => format!("err {:?}", x) } }
                "g2c" => { let mut e = G2Compressed::empty(); e.as_mut().copy_from_slice(&bytes); match e.into_affine() { Ok(p) => format!("ok {}", g2a(&p)), Err(x) => format!("err {:?}", x) } }
                _ => { let mut e = G2Uncompressed::empty(); e.as_mut().copy_from_slice(&bytes); match e.into_affine() { Ok(p) => format!("ok {}", g2a(&p)), Err(x) => format!("err {:?}", x) } }
            }
        }
        // joint Miller loop with SHARED prepared G2 objects against the product of individual pairings:
        // `ml_check <nq> b_0..b_{nq-1} <np> (a_i j_i)*np`  with Q_j = [b_j]g2 (0 = identity), P_i = [a_i]g1 (0 = identity), pair i = (P_i, Q_{j_i})
        "ml_check" => {
            use pairing_plus::bls12_381::Bls12;
            use pairing_plus::Engine;
            let nq = a[0].parse::<usize>().unwrap();
            let mut qs = Vec::new();
            for j in 0..nq {
                let mut q = G2::one();
                q.mul_assign(fr_repr(a[1 + j]));
                qs.push(q.into_affine());
            }
            let np = a[1 + nq].parse::<usize>().unwrap();
            let mut ps = Vec::new();
            let mut js = Vec::new();
            for i in 0..np {
                let mut p = G1::one();
                p.mul_assign(fr_repr(a[2 + nq + 2 * i]));
                ps.push(p.into_affine());
                js.push(a[3 + nq + 2 * i].parse::<usize>().unwrap());
            }
            let preps: Vec<_> = qs.iter().map(|q| q.prepare()).collect();
            let pps: Vec<_> = ps.iter().map(|p| p.prepare()).collect();
            let refs: Vec<_> = (0..np).map(|i| (&pps[i], &preps[js[i]])).collect();
            let joint = Bls12::final_exponentiation(&Bls12::miller_loop(&refs)).unwrap();
            // the same list again: prepared elements can be reused
            let joint2 = Bls12::final_exponentiation(&Bls12::miller_loop(&refs)).unwrap();
            let mut prod = Fq12::one();
            for i in 0..np {
                prod.mul_assign(&Bls12::pairing(ps[i], qs[js[i]]));
            }
            let helper = if np == 2 { Bls12::pairing_product(ps[0], qs[js[0]], ps[1], qs[js[1]]) == prod } else { true };
            let qsel: Vec<_> = (0..np).map(|i| qs[js[i]]).collect();
            let multi = Bls12::pairing_multi_product(&ps, &qsel) == prod;
            format!("joint_equals_product={} reuse_equal={} pairing_product={} pairing_multi_product={} is_one={}", joint == prod, joint == joint2, helper, multi, prod == Fq12::one())
        }
        // histories of ONE wNAF context: `wnaf_reuse <a> <b> <k>` with P = [a]g1, Q = [b]g1; six results, each must be what a fresh context gives
        "wnaf_reuse" => {
            let mut p = G1::one();
            p.mul_assign(fr_repr(a[0]));
            let mut q = G1::one();
            q.mul_assign(fr_repr(a[1]));
            let k = fr_repr(a[2]);
            let five = fr_repr("5");
            let mut c1 = pairing_plus::Wnaf::new();
            let r1 = c1.base(p, 1).scalar(k);            // small window
            let r2 = c1.base(p, 100).scalar(k);          // same base, larger window
            let r3 = c1.base(q, 1).scalar(k);            // other base, smaller window again
            let r4 = c1.base(q, 1).scalar(five);         // same table, other scalar
            let mut c2 = pairing_plus::Wnaf::new();
            let s1 = c2.scalar(five).base(p);            // short scalar: small window
            let s2 = c2.scalar(k).base(p);               // same base, long scalar: larger window
            let s3 = c2.scalar(k).base(q);
            let s4 = c2.scalar(fr_repr("0")).base(q);    // zero scalar after a long one
            format!("{} | {} | {} | {} | {} | {} | {} | {}", g1a(&r1.into_affine()), g1a(&r2.into_affine()), g1a(&r3.into_affine()), g1a(&r4.into_affine()),
                    g1a(&s1.into_affine()), g1a(&s2.into_affine()), g1a(&s3.into_affine()), g1a(&s4.into_affine()))
        }
        // batch normalization: `g1_batchnorm (X Y Z)*n` -> raw Jacobian triples after G1::batch_normalization, each with its membership verdict
        "g1_batchnorm" => {
            let n = a.len() / 3;
            let mut v: Vec<G1> = (0..n).map(|i| G1::verif_from_raw(fq(a[3 * i]), fq(a[3 * i + 1]), fq(a[3 * i + 2]))).collect();
            G1::batch_normalization(&mut v);
            v.iter().map(|p| { let af = p.into_affine(); format!("{} zero={} member={}", g1j(p), p.is_zero(), af.in_subgroup()) }).collect::<Vec<_>>().join(" | ")
        }
        "g1_mul" => { let mut p = G1::one(); p.mul_assign(fr_repr(a[0])); g1a(&p.into_affine()) }
        "g2_mul" => { let mut p = G2::one(); p.mul_assign(fr_repr(a[0])); g2a(&p.into_affine()) }
        // ---- full hash_to_curve / encode_to_curve (message and tag given as hex strings; "-" = empty)
        "g1_h2c_sha256" | "g1_e2c_sha256" | "g2_h2c_sha256" | "g2_e2c_sha256" | "g1_h2c_shake128" | "g2_h2c_shake128" | "g1_h2c_sha512" => {
            let msg = unhex(a[0]);
            let dst = unhex(a[1]);
            match op {
                "g1_h2c_sha256" => g1a(&<G1 as HashToCurve<ExpandMsgXmd<sha2::Sha256>>>::hash_to_curve(&msg, &dst).into_affine()),
                "g1_e2c_sha256" => g1a(&<G1 as HashToCurve<ExpandMsgXmd<sha2::Sha256>>>::encode_to_curve(&msg, &dst).into_affine()),
                "g2_h2c_sha256" => g2a(&<G2 as HashToCurve<ExpandMsgXmd<sha2::Sha256>>>::hash_to_curve(&msg, &dst).into_affine()),
                "g2_e2c_sha256" => g2a(&<G2 as HashToCurve<ExpandMsgXmd<sha2::Sha256>>>::encode_to_curve(&msg, &dst).into_affine()),
                "g1_h2c_sha512" => g1a(&<G1 as HashToCurve<ExpandMsgXmd<sha2::Sha512>>>::hash_to_curve(&msg, &dst).into_affine()),
                "g1_h2c_shake128" => g1a(&<G1 as HashToCurve<ExpandMsgXof<sha3::Shake128>>>::hash_to_curve(&msg, &dst).into_affine()),
                _ => g2a(&<G2 as HashToCurve<ExpandMsgXof<sha3::Shake128>>>::hash_to_curve(&msg, &dst).into_affine()),
            }
        }
        // ---- expand_message and hash_to_field on their own: `expand <xmd256|xmd512|xof128|xof256> msg dst len`
        "expand" => {
            use pairing_plus::hash_to_field::ExpandMsg;
            let (msg, dst, n) = (unhex(a[1]), unhex(a[2]), a[3].parse::<usize>().unwrap());
            let v = match a[0] {
                "xmd256" => <ExpandMsgXmd<sha2::Sha256> as ExpandMsg>::expand_message(&msg, &dst, n),
                "xmd512" => <ExpandMsgXmd<sha2::Sha512> as ExpandMsg>::expand_message(&msg, &dst, n),
                "xof128" => <ExpandMsgXof<sha3::Shake128> as ExpandMsg>::expand_message(&msg, &dst, n),
                _ => <ExpandMsgXof<sha3::Shake256> as ExpandMsg>::expand_message(&msg, &dst, n),
            };
            let mut o = format!("{} ", v.len());
            for b in v.iter() {
                o.push_str(&format!("{:02x}", b));
            }
            o
        }
        // `h2f <fq|fr|fq2> <xmd256|xof128> msg dst count`
        "h2f" => {
            use pairing_plus::hash_to_field::hash_to_field;
            let (msg, dst, n) = (unhex(a[2]), unhex(a[3]), a[4].parse::<usize>().unwrap());
            fn hr(x: &Fr) -> String {
                let r = x.into_repr();
                let mut s = String::new();
                for l in r.as_ref().iter().rev() {
                    s.push_str(&format!("{:016x}", l));
                }
                s
            }
            let body = match (a[0], a[1]) {
                ("fq", "xmd256") => hash_to_field::<Fq, ExpandMsgXmd<sha2::Sha256>>(&msg, &dst, n).iter().map(h).collect::<Vec<_>>().join(" "),
                ("fq", _) => hash_to_field::<Fq, ExpandMsgXof<sha3::Shake128>>(&msg, &dst, n).iter().map(h).collect::<Vec<_>>().join(" "),
                ("fr", "xmd256") => hash_to_field::<Fr, ExpandMsgXmd<sha2::Sha256>>(&msg, &dst, n).iter().map(hr).collect::<Vec<_>>().join(" "),
                ("fr", _) => hash_to_field::<Fr, ExpandMsgXof<sha3::Shake128>>(&msg, &dst, n).iter().map(hr).collect::<Vec<_>>().join(" "),
                (_, "xmd256") => hash_to_field::<Fq2, ExpandMsgXmd<sha2::Sha256>>(&msg, &dst, n).iter().map(h2).collect::<Vec<_>>().join(" "),
                _ => hash_to_field::<Fq2, ExpandMsgXof<sha3::Shake128>>(&msg, &dst, n).iter().map(h2).collect::<Vec<_>>().join(" "),
            };
            format!("n={} {}", n, body)
        }
        "profile" => (if cfg!(debug_assertions) { "dev" } else { "release" }).to_string(),
        _ => format!("UNKNOWN-OP {}", op),
    }
}

fn main() {
    panic::set_hook(Box::new(|_| {}));
    let stdin = io::stdin();
    let out = io::stdout();
    for line in stdin.lock().lines() {
        let line = line.unwrap();
        let parts: Vec<&str> = line.split_whitespace().collect();
        if parts.is_empty() {
            continue;
        }
        let op = parts[0].to_string();
        let args: Vec<String> = parts[1..].iter().map(|s| s.to_string()).collect();
        let r = panic::catch_unwind(move || {
            let a: Vec<&str> = args.iter().map(|s| s.as_str()).collect();
            run(&op, &a)
        });
        let mut o = out.lock();
        match r {
            Ok(s) => writeln!(o, "{}", s).unwrap(),
            Err(_) => writeln!(o, "PANIC").unwrap(),
        }
    }
    let _ = Fr::one();
}
