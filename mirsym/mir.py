"""Parser for the textual MIR printed by `rustc -Zunpretty=mir` (nightly pinned in this image).

Only the subset that the crate's executed functions use is understood; a construct that is
not understood raises MirSyntax *when it is executed*, which the driver reports as
inconclusive (exit 2) -- never as a pass.
"""
import re, hashlib


class MirSyntax(Exception):
    pass


OPEN = '([{<'
CLOSE = ')]}>'


def _depth_scan(s):
    """yield (i, ch, depth_before) skipping string literals; '<' '>' count as brackets except in -> and =>"""
    depth = 0
    i, n = 0, len(s)
    while i < n:
        ch = s[i]
        if ch == '"':
            # string literal
            j = i + 1
            while j < n:
                if s[j] == '\\':
                    j += 2
                    continue
                if s[j] == '"':
                    break
                j += 1
            yield i, 'STR', depth
            i = j + 1
            continue
        if ch in '([{':
            yield i, ch, depth
            depth += 1
        elif ch == '<':
            yield i, ch, depth
            depth += 1
        elif ch in ')]}':
            depth -= 1
            yield i, ch, depth
        elif ch == '>':
            if i > 0 and s[i - 1] in '-=':
                yield i, 'ARROW', depth
            else:
                depth -= 1
                yield i, ch, depth
        else:
            yield i, ch, depth
        i += 1


def split_top(s, sep=','):
    out, last = [], 0
    for i, ch, d in _depth_scan(s):
        if ch == sep and d == 0:
            out.append(s[last:i].strip())
            last = i + 1
    tail = s[last:].strip()
    if tail:
        out.append(tail)
    return out


def find_top(s, sub, start=0):
    """first index >= start of substring `sub` at bracket depth 0, or -1"""
    L = len(sub)
    for i, ch, d in _depth_scan(s):
        if i >= start and d == 0 and s.startswith(sub, i):
            return i
    return -1


def rfind_top(s, sub):
    r = -1
    for i, ch, d in _depth_scan(s):
        if d == 0 and s.startswith(sub, i):
            r = i
    return r


def match_close(s, i):
    """s[i] is an opening bracket; return index of its closing partner"""
    depth = 0
    for j, ch, d in _depth_scan(s[i:]):
        if ch in ('(', '[', '{', '<'):
            depth += 1
        elif ch in (')', ']', '}', '>'):
            depth -= 1
            if depth == 0:
                return i + j
    raise MirSyntax('unbalanced: ' + s)


def norm_ty(t):
    t = re.sub(r'\s+', ' ', t.strip())
    t = t.replace('bls12_381::', '').replace('crate::', '')
    t = re.sub(r"&'\w+ ", '&', t)
    t = re.sub(r"'\w+, ", '', t)
    return t


# ---------------------------------------------------------------- AST (tuples)
# place:   ('local', name) | ('deref', p) | ('field', p, idx, ty) | ('index', p, local) |
#          ('cindex', p, k, fromend) | ('downcast', p, variant) | ('subslice', p, a, b, fromend)
# operand: ('copy', place) | ('move', place) | ('const', text, ty_or_None)
# rvalue:  ('use', operand) | ('ref', mutbl, place) | ('bin', op, a, b) | ('un', op, a) |
#          ('disc', place) | ('cast', operand, ty, kind) | ('agg', kind, ty, [operands], [names]) |
#          ('repeat', operand, count) | ('len', place)

_place_cache = {}


def parse_place(t):
    t = t.strip()
    r = _place_cache.get(t)
    if r is None:
        r = _parse_place(t)
        _place_cache[t] = r
    return r


def _parse_place(t):
    if re.fullmatch(r'_\d+', t):
        return ('local', t)
    # postfix index: P[...]
    if t.endswith(']'):
        # find matching '['
        depth = 0
        for i in range(len(t) - 1, -1, -1):
            c = t[i]
            if c == ']':
                depth += 1
            elif c == '[':
                depth -= 1
                if depth == 0:
                    break
        base, idx = t[:i], t[i + 1:-1]
        if base:
            p = parse_place(base)
            if re.fullmatch(r'_\d+', idx):
                return ('index', p, idx)
            m = re.fullmatch(r'(-?)(\d+) of (\d+)', idx)
            if m:
                return ('cindex', p, int(m.group(2)), m.group(1) == '-')
            m = re.fullmatch(r'(\d+)\.\.(-?)(\d*)', idx)
            if m:
                return ('subslice', p, int(m.group(1)), int(m.group(3)) if m.group(3) else None, m.group(2) == '-')
            m = re.fullmatch(r'(\d+):', idx)
            raise MirSyntax('index? ' + t)
    if t.startswith('(') and t.endswith(')') and match_close(t, 0) == len(t) - 1:
        inner = t[1:-1].strip()
        if inner.startswith('*'):
            return ('deref', parse_place(inner[1:]))
        # field: P.N: Ty      (find last ".N: " at depth 0)
        pos = None
        for i, ch, d in _depth_scan(inner):
            if ch == '.' and d == 0:
                mm = re.match(r'\.(\d+): ', inner[i:])
                if mm:
                    pos = (i, int(mm.group(1)), i + len(mm.group(0)))
        if pos is not None:
            return ('field', parse_place(inner[:pos[0]]), pos[1], norm_ty(inner[pos[2]:]))
        k = rfind_top(inner, ' as ')
        if k >= 0:
            return ('downcast', parse_place(inner[:k]), inner[k + 4:].strip())
        return parse_place(inner)
    raise MirSyntax('place? ' + t)


_INT = re.compile(r'(-?\d+)_(u8|u16|u32|u64|u128|usize|i8|i16|i32|i64|i128|isize)$')


def parse_operand(t):
    t = t.strip()
    if t.startswith('copy '):
        return ('copy', parse_place(t[5:]))
    if t.startswith('move '):
        return ('move', parse_place(t[5:]))
    if t.startswith('no_retag copy '):
        return ('copy', parse_place(t[14:]))
    if t.startswith('no_retag move '):
        return ('move', parse_place(t[14:]))
    if t.startswith('const '):
        return ('const', t[6:].strip())
    raise MirSyntax('operand? ' + t)


BINOPS = {'Add', 'Sub', 'Mul', 'Div', 'Rem', 'BitXor', 'BitAnd', 'BitOr', 'Shl', 'Shr', 'Eq', 'Lt', 'Le', 'Ne', 'Ge',
          'Gt', 'Cmp', 'Offset', 'AddWithOverflow', 'SubWithOverflow', 'MulWithOverflow', 'AddUnchecked',
          'SubUnchecked', 'MulUnchecked', 'ShlUnchecked', 'ShrUnchecked'}
UNOPS = {'Not', 'Neg', 'PtrMetadata'}

_rv_cache = {}


def parse_rvalue(t):
    t = t.strip()
    r = _rv_cache.get(t)
    if r is None:
        r = _parse_rvalue(t)
        _rv_cache[t] = r
    return r


def _parse_rvalue(t):
    if t.startswith('&raw const (fake) '):
        return ('ref', 'raw', parse_place(t[18:]))
    if t.startswith('&raw const '):
        return ('ref', 'raw', parse_place(t[11:]))
    if t.startswith('&raw mut '):
        return ('ref', 'raw', parse_place(t[9:]))
    if t.startswith('&mut '):
        return ('ref', 'mut', parse_place(t[5:]))
    if t.startswith('&fake shallow '):
        return ('ref', 'fake', parse_place(t[14:]))
    if t.startswith('&') and not t.startswith('&&'):
        return ('ref', 'shr', parse_place(t[1:]))
    if re.match(r'(copy|move|const|no_retag) ', t):
        k = rfind_top(t, ' as ')
        # cast:  OP as Ty (Kind)
        if k >= 0 and t.endswith(')'):
            rest = t[k + 4:]
            j = rest.rfind(' (')
            if j >= 0:
                return ('cast', parse_operand(t[:k]), norm_ty(rest[:j]), rest[j + 2:-1])
        return ('use', parse_operand(t))
    m = re.match(r'(\w+)\(', t)
    if m and t.endswith(')') and match_close(t, len(m.group(1))) == len(t) - 1:
        op = m.group(1)
        inner = t[len(op) + 1:-1]
        if op in BINOPS:
            a, b = split_top(inner)
            return ('bin', op, parse_operand(a), parse_operand(b))
        if op in UNOPS:
            return ('un', op, parse_operand(inner))
        if op == 'discriminant':
            return ('disc', parse_place(inner))
        if op == 'Len':
            return ('len', parse_place(inner))
    if t.startswith('['):
        e = match_close(t, 0)
        if e == len(t) - 1:
            inner = t[1:-1]
            k = find_top(inner, ';')
            if k >= 0:
                return ('repeat', parse_operand(inner[:k]), inner[k + 1:].strip())
            return ('agg', 'array', None, [parse_operand(x) for x in split_top(inner)], None)
    if t.startswith('('):
        e = match_close(t, 0)
        if e == len(t) - 1:
            return ('agg', 'tuple', None, [parse_operand(x) for x in split_top(t[1:-1])], None)
    if t.startswith('{closure@') or t.startswith('{coroutine@'):
        e = match_close(t, 0)
        rest = t[e + 1:].strip()
        ops, names = [], []
        if rest.startswith('{'):
            for f in split_top(rest[1:-1]):
                n, v = f.split(': ', 1)
                names.append(n.strip())
                ops.append(parse_operand(v))
        return ('agg', 'closure', t[:e + 1], ops, names)
    # struct / variant aggregates:  Path { f: op, .. }  |  Path(op, ..)  |  Path   (unit)
    if t.endswith('}'):
        k = find_top(t, ' {')
        if k >= 0:
            ops, names = [], []
            for f in split_top(t[k + 2:-1]):
                n, v = f.split(': ', 1)
                names.append(n.strip())
                ops.append(parse_operand(v))
            return ('agg', 'adt', norm_ty(t[:k]), ops, names)
    if t.endswith(')'):
        # find the '(' that matches the last ')'
        for i, ch, d in _depth_scan(t):
            if ch == '(' and d == 0 and match_close(t, i) == len(t) - 1:
                return ('agg', 'adt', norm_ty(t[:i]), [parse_operand(x) for x in split_top(t[i + 1:-1])], None)
    if re.fullmatch(r'[\w:<>, &\[\];\']+', t):
        return ('agg', 'adt', norm_ty(t), [], None)
    raise MirSyntax('rvalue? ' + t)


_stmt_cache = {}


def parse_stmt(t):
    r = _stmt_cache.get(t)
    if r is None:
        r = _parse_stmt(t)
        _stmt_cache[t] = r
    return r


_NOPS = ('StorageLive', 'StorageDead', 'FakeRead', 'PlaceMention', 'nop', 'Retag', 'AscribeUserType', 'Coverage',
         'ConstEvalCounter', 'Deinit', 'BackwardIncompatibleDropHint')


def _parse_stmt(t):
    for n in _NOPS:
        if t.startswith(n):
            return ('nop',)
    if t.startswith('assume('):
        return ('assume', parse_operand(t[7:-1]))
    m = re.match(r'discriminant\((.+)\) = (\d+)$', t)
    if m:
        return ('setdisc', parse_place(m.group(1)), int(m.group(2)))
    k = find_top(t, ' = ')
    if k < 0:
        raise MirSyntax('stmt? ' + t)
    return ('assign', parse_place(t[:k]), parse_rvalue(t[k + 3:]))


def parse_term(t):
    r = _stmt_cache.get('T' + t)
    if r is None:
        r = _parse_term(t)
        _stmt_cache['T' + t] = r
    return r


def _parse_term(t):
    if t == 'return':
        return ('return',)
    if t in ('resume', 'unreachable', 'abort') or t.startswith('unwind '):
        return ('dead', t)
    m = re.fullmatch(r'goto -> (bb\d+)', t)
    if m:
        return ('goto', m.group(1))
    m = re.fullmatch(r'switchInt\((.+)\) -> \[(.+)\]', t, re.S)
    if m:
        arms, other = [], None
        for arm in split_top(m.group(2)):
            k, b = arm.split(': ')
            if k == 'otherwise':
                other = b
            else:
                arms.append((int(k), b))
        return ('switch', parse_operand(m.group(1)), arms, other)
    if t.startswith('assert('):
        e = match_close(t, 6)
        inner = split_top(t[7:e])
        cond = inner[0]
        neg = cond.startswith('!')
        if neg:
            cond = cond[1:]
        msg = inner[1] if len(inner) > 1 else ''
        m = re.search(r'success: (bb\d+)', t[e:])
        return ('assert', parse_operand(cond), neg, msg, m.group(1))
    if t.startswith('drop('):
        e = match_close(t, 4)
        m = re.search(r'return: (bb\d+)', t[e:])
        return ('drop', parse_place(t[5:e]), m.group(1))
    if t.startswith('falseEdge') or t.startswith('falseUnwind'):
        m = re.search(r'real: (bb\d+)', t)
        return ('goto', m.group(1))
    # call:   DEST = CALLEE(args) -> [return: bbN, unwind ..]   |  ... -> unwind continue  | ... -> bbN
    k = find_top(t, ' = ')
    if k >= 0:
        dest = t[:k]
        rest = t[k + 3:]
        a = rfind_top(rest, ' -> ')
        tail = rest[a + 4:] if a >= 0 else ''
        callpart = rest[:a] if a >= 0 else rest
        # callee(args): last top-level '(' group at the end
        if not callpart.endswith(')'):
            raise MirSyntax('call? ' + t)
        for i, ch, d in _depth_scan(callpart):
            if ch == '(' and d == 0 and match_close(callpart, i) == len(callpart) - 1:
                callee = callpart[:i]
                args = [parse_operand(x) for x in split_top(callpart[i + 1:-1])]
                m = re.search(r'return: (bb\d+)', tail)
                return ('call', parse_place(dest), re.sub(r'\s+', ' ', callee.strip()), args, m.group(1) if m else None)
    raise MirSyntax('terminator? ' + t)


class Fn:
    __slots__ = ('name', 'kind', 'params', 'ret', 'locals', 'debug', 'blocks', 'text_hash', 'ipdom', 'line')

    def __init__(s):
        s.ipdom = None

    def __repr__(s):
        return '<Fn %s(%s)>' % (s.name, ', '.join(t for _, t in s.params))


_HDR_FN = re.compile(r'^fn (.+?)\((.*)\) -> (.+?) \{$')
_HDR_CONST = re.compile(r'^(?:const|static(?: mut)?) (.+?): (.+?) = \{$')
_HDR_CONST1 = re.compile(r'^(?:const|static(?: mut)?) (.+?): (.+?) = (const .+);$')


class _M:
    def __init__(s, *g):
        s.g = g

    def group(s, i):
        return s.g[i - 1]


def _const_split(ln):
    body = re.sub(r'^(const|static mut|static) ', '', ln)
    k = find_top(body, ': ')
    if k < 0:
        return None
    e = find_top(body, ' = ', k)
    if e < 0:
        return None
    return body[:k], body[k + 2:e], body[e + 3:]


def _const_hdr(ln):
    r = _const_split(ln)
    if r and r[2] == '{':
        return _M(r[0], r[1])
    return None


def _const_hdr1(ln):
    r = _const_split(ln)
    if r and r[2].startswith('const ') and r[2].endswith(';'):
        return _M(r[0], r[1], r[2][:-1])
    return None


def parse_mir(text):
    """returns (fns: name -> [Fn], consts: name -> Fn)"""
    lines = text.split('\n')
    fns, consts = {}, {}
    i, n = 0, len(lines)
    while i < n:
        ln = lines[i]
        m = _HDR_FN.match(ln) if ln.startswith('fn ') else None
        mc = None
        if m is None and (ln.startswith('const ') or ln.startswith('static ')):
            mc = _const_hdr(ln)
            if mc is None:
                m1 = _const_hdr1(ln)
                if m1:
                    f = Fn()
                    f.name, f.kind, f.params, f.ret = m1.group(1), 'const', [], norm_ty(m1.group(2))
                    f.locals, f.debug, f.line = {'_0': f.ret}, {}, i + 1
                    f.blocks = {'bb0': (['_0 = ' + m1.group(3)], 'return')}
                    f.text_hash = hashlib.sha256(ln.encode()).hexdigest()[:16]
                    consts.setdefault(f.name, f)
                i += 1
                continue
        if m is None and mc is None:
            i += 1
            continue
        j = i + 1
        while j < n and lines[j] != '}':
            j += 1
        body = lines[i + 1:j]
        f = Fn()
        f.line = i + 1
        f.text_hash = hashlib.sha256('\n'.join(lines[i:j + 1]).encode()).hexdigest()[:16]
        if m:
            f.name, f.kind, f.ret = m.group(1), 'fn', norm_ty(m.group(3))
            f.params = []
            for p in split_top(m.group(2)):
                pm = re.match(r'(?:mut )?(_\d+): (.+)$', p, re.S)
                f.params.append((pm.group(1), norm_ty(pm.group(2))))
        else:
            f.name, f.kind, f.ret, f.params = mc.group(1), 'const', norm_ty(mc.group(2)), []
        f.locals = {pn: pt for pn, pt in f.params}
        f.debug = {}
        f.blocks = {}
        k = 0
        nb = len(body)
        while k < nb:
            l = body[k]
            s = l.strip()
            lm = re.match(r'let (?:mut )?(_\d+): (.+);$', s)
            if lm:
                f.locals[lm.group(1)] = norm_ty(lm.group(2))
                k += 1
                continue
            dm = re.match(r'debug (.+?) => (.+);$', s)
            if dm:
                f.debug.setdefault(dm.group(1), dm.group(2))
                k += 1
                continue
            bm = re.match(r'(bb\d+)( \(cleanup\))?: \{$', s)
            if bm:
                k += 1
                stmts, cur = [], ''
                while k < nb and body[k] != '    }':
                    cur = (cur + ' ' + body[k].strip()).strip() if cur else body[k].strip()
                    if cur.endswith(';'):
                        stmts.append(cur[:-1])
                        cur = ''
                    k += 1
                if cur:
                    stmts.append(cur)
                if stmts:
                    f.blocks[bm.group(1)] = (stmts[:-1], stmts[-1])
                k += 1
                continue
            k += 1
        if f.kind == 'fn':
            fns.setdefault(f.name, []).append(f)
        else:
            consts.setdefault(f.name, f)
        i = j + 1
    return fns, consts


# ---------------------------------------------------------------- CFG / post-dominators
def successors(f, bb):
    t = parse_term(f.blocks[bb][1])
    k = t[0]
    if k == 'goto':
        return [t[1]]
    if k == 'switch':
        return [b for _, b in t[2]] + ([t[3]] if t[3] else [])
    if k == 'assert':
        return [t[4]]
    if k == 'drop':
        return [t[2]]
    if k == 'call':
        return [t[4]] if t[4] else []
    if k == 'return':
        return ['EXIT']
    return []


def compute_ipdom(f):
    """immediate post-dominators over blocks that can reach return (panic / cleanup paths ignored)"""
    if f.ipdom is not None:
        return f.ipdom
    succ = {}
    for bb in f.blocks:
        try:
            succ[bb] = successors(f, bb)
        except MirSyntax:
            succ[bb] = []
    succ['EXIT'] = []
    pred = {b: [] for b in succ}
    for b, ss in succ.items():
        for s in ss:
            if s in pred:
                pred[s].append(b)
    # nodes that reach EXIT
    reach = set(['EXIT'])
    work = ['EXIT']
    while work:
        x = work.pop()
        for p in pred[x]:
            if p not in reach:
                reach.add(p)
                work.append(p)
    nodes = [b for b in succ if b in reach]
    # iterative dataflow on reverse graph
    pdom = {b: set(nodes) for b in nodes}
    pdom['EXIT'] = {'EXIT'}
    changed = True
    # order: reverse postorder of reverse graph ~ just iterate
    while changed:
        changed = False
        for b in nodes:
            if b == 'EXIT':
                continue
            ss = [s for s in succ[b] if s in reach]
            if not ss:
                continue
            new = set.intersection(*[pdom[s] for s in ss]) | {b}
            if new != pdom[b]:
                pdom[b] = new
                changed = True
    ip = {}
    for b in nodes:
        if b == 'EXIT':
            continue
        cands = pdom[b] - {b}
        # the immediate one is the candidate that is post-dominated by all the others
        best = None
        for c in cands:
            if all((o == c) or (o in pdom[c]) for o in cands):
                best = c
                break
        ip[b] = best
    f.ipdom = ip
    return ip
