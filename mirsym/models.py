"""Leaf models: documented contracts of std / third-party functions, and the abstract domains
(ring, exponent) that replace the layer *below* the one under test.  Nothing from /repo is
modelled here except through a domain whose laws are the conclusion of another check."""
import re
import z3
from .sym import (BV, FE, GE, Agg, Enum, Ref, Str, Opaque, UNIT, Inconclusive, PathDead, merge, b_and, b_or, b_not,
                  mk_bool, simp_bool, is_sym, same, INT_TYPES, _strip_generics)

# ------------------------------------------------------------------ helpers


def deref(ex, st, r):
    if not isinstance(r, Ref):
        raise Inconclusive('expected reference, got %r' % (r,))
    return ex.load(st, r)


def some(v, ty='Option'):
    return Enum('Option', 1, {'Some': (v,)})


def none():
    return Enum('Option', 0, {})


def opt_sym(cond_some, v):
    """Option that is Some(v) iff cond_some"""
    c = simp_bool(cond_some)
    if c is True:
        return some(v)
    if c is False:
        return none()
    return Enum('Option', z3.If(c, z3.BitVecVal(1, 64), z3.BitVecVal(0, 64)), {'Some': (v,)})


def seq_items(ex, st, r):
    """elements of the slice / array / Vec behind reference r (concrete length)"""
    v = ex.load(st, Ref(r.addr, r.path))
    if not isinstance(v, Agg):
        raise Inconclusive('sequence expected, got %r' % (v,))
    if r.length is None:
        return list(v.f), 0
    if not (r.start.concrete and r.length.concrete):
        raise Inconclusive('symbolic slice bounds')
    return list(v.f[r.start.v:r.start.v + r.length.v]), r.start.v


def usize(n):
    return BV(64, False, n)


# ------------------------------------------------------------------ std models
def m_identity(ex, st, m, a):
    return a[0]


def m_clone(ex, st, m, a):
    return deref(ex, st, a[0])


def m_swap(ex, st, m, a):
    x, y = deref(ex, st, a[0]), deref(ex, st, a[1])
    ex.store(st, a[0], y)
    ex.store(st, a[1], x)
    return UNIT


def m_replace(ex, st, m, a):
    x = deref(ex, st, a[0])
    ex.store(st, a[0], a[1])
    return x


def call_closure(ex, st, clo, args):
    if isinstance(clo, Ref):
        cv = ex.load(st, clo)
    else:
        cv = clo
    if isinstance(cv, Opaque) and cv.what[0] == 'const':
        # fn item used as a closure
        return ex.call(st, cv.what[1], list(args))
    if not isinstance(cv, Agg) or not cv.ty.startswith('{closure@'):
        raise Inconclusive('not a closure: %r' % (cv,))
    f = ex.closure_body(cv.ty)
    if f is None:
        raise Inconclusive('closure body not found: ' + cv.ty)
    first = f.params[0][1]
    if first.startswith('&'):
        env = clo if isinstance(clo, Ref) else ex.alloc(st, cv, 'closure')
    else:
        env = cv
    return ex.call_fn(st, f, [env] + list(args), {})


def m_option_map(ex, st, m, a):
    o, clo = a
    if not isinstance(o, Enum):
        raise Inconclusive('Option::map on %r' % (o,))
    if isinstance(o.disc, int):
        if o.disc == 0:
            return none()
        return some(call_closure(ex, st, clo, [o.payload['Some'][0]]))
    # symbolic: run the closure on the payload under the assumption that it is Some
    st2 = st.clone()
    st2.pc.append(o.disc == 1)
    r = call_closure(ex, st2, clo, [o.payload['Some'][0]])
    # closure may not have side effects on outer memory that matter (captures by ref are read-only here)
    return Enum('Option', o.disc, {'Some': (r,)})


def m_option_unwrap(ex, st, m, a):
    o = a[0]
    if isinstance(o, Enum):
        if isinstance(o.disc, int):
            if o.disc == 1:
                return o.payload['Some'][0]
            ex.oblige(st, 'panic', False, 'unwrap on None', ('leaf', m.group(0)))
            raise PathDead()
        c = o.disc == 1
        ex.oblige(st, 'panic', c, 'unwrap on None', ('leaf', m.group(0)))
        st.pc.append(c)
        return o.payload['Some'][0]
    raise Inconclusive('unwrap on %r' % (o,))


def m_result_unwrap(ex, st, m, a):
    o = a[0]
    if isinstance(o, Enum):
        if isinstance(o.disc, int):
            if o.disc == 0:
                return o.payload['Ok'][0]
            ex.oblige(st, 'panic', False, 'unwrap on Err', ('leaf', m.group(0)))
            raise PathDead()
        c = o.disc == 0
        ex.oblige(st, 'panic', c, 'unwrap on Err', ('leaf', m.group(0)))
        st.pc.append(c)
        return o.payload['Ok'][0]
    raise Inconclusive('unwrap on %r' % (o,))


def m_option_is_some(ex, st, m, a):
    o = deref(ex, st, a[0])
    return (o.disc == 1) if not isinstance(o.disc, int) else o.disc == 1


def m_option_is_none(ex, st, m, a):
    o = deref(ex, st, a[0])
    return (o.disc == 0) if not isinstance(o.disc, int) else o.disc == 0


# --- ranges / iterators over concrete index spaces
def m_into_iter_id(ex, st, m, a):
    return a[0]


def m_range_next(ex, st, m, a):
    r = deref(ex, st, a[0])
    lo, hi = r.f[0], r.f[1]
    c = ex.binop('Lt', lo, hi)
    c = simp_bool(c)
    if c is True:
        ex.store(st, a[0], Agg(r.ty, (ex.binop('Add', lo, BV(lo.w, lo.s, 1)), hi)))
        return some(lo)
    if c is False:
        return none()
    # symbolic bound: Option with symbolic discriminant, state updated conditionally
    nxt = ex.binop('Add', lo, BV(lo.w, lo.s, 1))
    ex.store(st, a[0], Agg(r.ty, (merge(c, nxt, lo), hi)))
    return opt_sym(c, lo)


def m_range_incl_new(ex, st, m, a):
    return Agg('RangeInclusive', (a[0], a[1], False))


def m_range_incl_next(ex, st, m, a):
    r = deref(ex, st, a[0])
    lo, hi, done = r.f
    if not (lo.concrete and hi.concrete) or not isinstance(done, bool):
        raise Inconclusive('symbolic RangeInclusive')
    if done or lo.v > hi.v:
        return none()
    if lo.v == hi.v:
        ex.store(st, a[0], Agg(r.ty, (lo, hi, True)))
    else:
        ex.store(st, a[0], Agg(r.ty, (BV(lo.w, lo.s, lo.v + 1), hi, False)))
    return some(lo)


def m_rev(ex, st, m, a):
    return Agg('Rev', (a[0],))


def m_rev_next(ex, st, m, a):
    rr = a[0]
    inner = rr.ext(('f', 0))
    v = ex.load(st, inner)
    if isinstance(v, Agg) and v.ty.endswith('Range'):
        lo, hi = v.f
        c = simp_bool(ex.binop('Lt', lo, hi))
        nh = ex.binop('Sub', hi, BV(hi.w, hi.s, 1))
        if c is True:
            ex.store(st, inner, Agg(v.ty, (lo, nh)))
            return some(nh)
        if c is False:
            return none()
        ex.store(st, inner, Agg(v.ty, (lo, merge(c, nh, hi))))
        return opt_sym(c, nh)
    if isinstance(v, Agg) and v.ty == 'SliceIter':
        base, i, n, mut = v.f
        if i >= n:
            return none()
        ex.store(st, inner, Agg(v.ty, (base, i, n - 1, mut)))
        return some(Ref(base.addr, base.path + (('i', n - 1),)))
    if isinstance(v, Agg) and v.ty == 'BitIterator':
        raise Inconclusive('rev of BitIterator')
    raise Inconclusive('Rev::next over %r' % (v,))


def m_slice_iter(ex, st, m, a):
    r = a[0]
    items, s0 = seq_items(ex, st, r)
    return Agg('SliceIter', (Ref(r.addr, r.path), s0, s0 + len(items), bool(m is not None and 'mut' in m.group(0))))


def m_slice_iter_next(ex, st, m, a):
    v = deref(ex, st, a[0])
    if v.ty != 'SliceIter':
        raise Inconclusive('iter next on %r' % (v,))
    base, i, n, mut = v.f
    if i >= n:
        return none()
    ex.store(st, a[0], Agg(v.ty, (base, i + 1, n, mut)))
    return some(Ref(base.addr, base.path + (('i', i),)))


def m_vec_into_iter(ex, st, m, a):
    v = a[0]
    r = ex.alloc(st, v, 'intoiter')
    return Agg('VecIntoIter', (r, 0, len(v.f)))


def m_vec_into_iter_next(ex, st, m, a):
    v = deref(ex, st, a[0])
    base, i, n = v.f
    if i >= n:
        return none()
    ex.store(st, a[0], Agg(v.ty, (base, i + 1, n)))
    return some(ex.load(st, base.ext(('i', i))))


def m_into_iter(ex, st, m, a):
    x = a[0]
    if isinstance(x, Agg) and x.ty == 'Vec':
        return m_vec_into_iter(ex, st, m, a)
    if isinstance(x, Agg) and x.ty == '[array]':
        return m_vec_into_iter(ex, st, m, [Agg('Vec', x.f)])
    if isinstance(x, Ref):
        v = ex.load(st, Ref(x.addr, x.path))
        if isinstance(v, Agg) and v.ty in ('[array]', 'Vec'):
            return m_slice_iter(ex, st, m, a)
    return x


def m_zip(ex, st, m, a):
    other = a[1]
    if isinstance(other, Ref):          # zip takes IntoIterator: a slice / array / Vec reference iterates by reference
        other = m_into_iter(ex, st, None, [other])
    return Agg('Zip', (a[0], other))


def _iter_next(ex, st, r):
    v = ex.load(st, r)
    if v.ty == 'SliceIter':
        return m_slice_iter_next(ex, st, None, [r])
    if v.ty == 'VecIntoIter':
        return m_vec_into_iter_next(ex, st, None, [r])
    if v.ty == 'Zip':
        return m_zip_next(ex, st, None, [r])
    if v.ty == 'Rev':
        return m_rev_next(ex, st, None, [r])
    if v.ty.endswith('Range'):
        return m_range_next(ex, st, None, [r])
    if v.ty == 'Enumerate':
        return m_enumerate_next(ex, st, None, [r])
    if v.ty == 'BitIterator':
        return m_bititer_next(ex, st, None, [r])
    if v.ty == 'MapIter':
        x = _iter_next(ex, st, r.ext(('f', 0)))
        if x.disc == 0:
            return none()
        return some(call_closure(ex, st, r.ext(('f', 1)), [x.payload['Some'][0]]))
    if v.ty in ('Filter', 'TakeWhile', 'SkipWhile'):
        if v.ty == 'TakeWhile' and v.f[2] is True:
            return none()
        while True:
            x = _iter_next(ex, st, r.ext(('f', 0)))
            if x.disc == 0:
                return none()
            item = x.payload['Some'][0]
            keep = call_closure(ex, st, r.ext(('f', 1)), [ex.alloc(st, item, 'pred-arg')])
            keep = simp_bool(keep)
            if not isinstance(keep, bool):
                raise Inconclusive('symbolic predicate in iterator adaptor %s' % v.ty)
            if v.ty == 'Filter':
                if keep:
                    return some(item)
                continue
            if v.ty == 'TakeWhile':
                if keep:
                    return some(item)
                ex.store(st, r.ext(('f', 2)), True)
                return none()
    if v.ty == 'Skip':
        n = v.f[1]
        while n > 0:
            x = _iter_next(ex, st, r.ext(('f', 0)))
            n -= 1
            if x.disc == 0:
                break
        ex.store(st, r.ext(('f', 1)), 0)
        return _iter_next(ex, st, r.ext(('f', 0)))
    if v.ty == 'Chain':
        if v.f[2] is False:
            x = _iter_next(ex, st, r.ext(('f', 0)))
            if x.disc != 0:
                return x
            ex.store(st, r.ext(('f', 2)), True)
        return _iter_next(ex, st, r.ext(('f', 1)))
    if v.ty == 'Chunks':
        base, i, n, size = v.f
        if i >= n:
            return none()
        k = min(size, n - i)
        ex.store(st, r, Agg('Chunks', (base, i + k, n, size)))
        return some(Ref(base.addr, base.path, usize(i), usize(k)))
    if v.ty == 'OptionIter':
        o = v.f[0]
        ex.store(st, r, Agg('OptionIter', (none(),)))
        return o
    raise Inconclusive('next on %r' % (v,))


def m_iter_adapt(kind):
    def h(ex, st, m, a):
        if kind == 'MapIter':
            return Agg('MapIter', (a[0], a[1]))
        if kind in ('Filter', 'TakeWhile', 'SkipWhile'):
            return Agg(kind, (a[0], a[1], False))
        if kind == 'Skip':
            if not a[1].concrete:
                raise Inconclusive('symbolic skip count')
            return Agg('Skip', (a[0], a[1].v))
        if kind == 'Chain':
            other = a[1]
            if isinstance(other, Enum) and other.ty == 'Option':
                other = Agg('OptionIter', (other,))
            return Agg('Chain', (a[0], other, False))
        raise Inconclusive(kind)
    return h


def m_collect_vec(ex, st, m, a):
    it = ex.alloc(st, a[0], 'collect')
    out = []
    while True:
        x = _iter_next(ex, st, it)
        if x.disc == 0:
            return Agg('Vec', out)
        out.append(x.payload['Some'][0])
        if len(out) > 100000:
            raise Inconclusive('collect does not terminate')


def m_zip_next(ex, st, m, a):
    x = _iter_next(ex, st, a[0].ext(('f', 0)))
    if x.disc == 0:
        return none()
    y = _iter_next(ex, st, a[0].ext(('f', 1)))
    if y.disc == 0:
        return none()
    return some(Agg('(tuple)', (x.payload['Some'][0], y.payload['Some'][0])))


def m_enumerate(ex, st, m, a):
    return Agg('Enumerate', (a[0], 0))


def m_enumerate_next(ex, st, m, a):
    x = _iter_next(ex, st, a[0].ext(('f', 0)))
    if x.disc == 0:
        return none()
    i = ex.load(st, a[0].ext(('f', 1)))
    ex.store(st, a[0].ext(('f', 1)), i + 1)
    return some(Agg('(tuple)', (usize(i), x.payload['Some'][0])))


def m_generic_next(ex, st, m, a):
    return _iter_next(ex, st, a[0])


def m_for_each(ex, st, m, a):
    it = ex.alloc(st, a[0], 'iter')
    while True:
        x = _iter_next(ex, st, it)
        if x.disc == 0:
            return UNIT
        call_closure(ex, st, a[1], [x.payload['Some'][0]])


def m_iter_all(ex, st, m, a):
    it, clo = a
    acc = True
    while True:
        x = _iter_next(ex, st, it)
        if x.disc == 0:
            return acc
        r = call_closure(ex, st, clo, [x.payload['Some'][0]])
        acc = b_and(acc, r)


# --- BitIterator (ff-zeroize 0.6.3: MSB-first over the limbs of a PrimeFieldRepr / AsRef<[u64]>)
def _limbs(ex, st, v):
    """u64 limbs behind a repr value (FqRepr([u64;6]) / FrRepr / [u64;N] / &[u64])"""
    if isinstance(v, Ref):
        items, _ = seq_items(ex, st, v) if v.length is not None else (None, 0)
        if items is not None:
            return items
        v = ex.load(st, v)
    while isinstance(v, Agg) and len(v.f) == 1 and isinstance(v.f[0], Agg):
        v = v.f[0]
    if isinstance(v, Agg) and all(isinstance(x, BV) for x in v.f):
        return list(v.f)
    raise Inconclusive('limbs of %r' % (v,))


def m_bititer_new(ex, st, m, a):
    limbs = _limbs(ex, st, a[0])
    return Agg('BitIterator', (Agg('[array]', limbs), len(limbs) * 64))


def m_bititer_next(ex, st, m, a):
    v = deref(ex, st, a[0])
    limbs, n = v.f
    if n == 0:
        return none()
    n -= 1
    ex.store(st, a[0], Agg(v.ty, (limbs, n)))
    limb = limbs.f[n // 64]
    bit = n % 64
    if limb.concrete:
        return some(bool((limb.v >> bit) & 1))
    return some(z3.Extract(bit, bit, limb.v) == 1)


# --- Vec
def m_vec_new(ex, st, m, a):
    return Agg('Vec', ())


def m_vec_push(ex, st, m, a):
    v = deref(ex, st, a[0])
    ex.store(st, a[0], Agg('Vec', v.f + (a[1],)))
    return UNIT


def m_slice_chunks(ex, st, m, a):
    r, k = a
    if not k.concrete or k.v == 0:
        raise Inconclusive('chunks with symbolic or zero size')
    items, s0 = seq_items(ex, st, r)
    return Agg('Chunks', (Ref(r.addr, r.path), s0, s0 + len(items), k.v))


def m_copy_from_slice(ex, st, m, a):
    """<[T]>::copy_from_slice(dst, src): lengths must agree (panics otherwise), elements copied in order"""
    dst, src = a
    di, d0 = seq_items(ex, st, dst)
    si, _ = seq_items(ex, st, src)
    if len(di) != len(si):
        ex.oblige(st, 'panic', False, 'copy_from_slice: source slice length (%d) does not match destination slice length (%d)' % (len(si), len(di)), ('leaf', m.group(0)))
        raise PathDead()
    for k, v in enumerate(si):
        ex.store(st, Ref(dst.addr, dst.path + (('i', d0 + k),)), v)
    return UNIT


def m_vec_extend(ex, st, m, a):
    """Vec::extend(iter): appends every item the iterator yields"""
    it = a[1]
    if isinstance(it, Ref):
        it = m_into_iter(ex, st, None, [it])
    elif isinstance(it, Agg) and it.ty in ('Vec', '[array]'):
        it = m_into_iter(ex, st, None, [it])
    ir = ex.alloc(st, it, 'extend-iter')
    while True:
        x = _iter_next(ex, st, ir)
        if x.disc == 0:
            return UNIT
        v = deref(ex, st, a[0])
        if len(v.f) > 100000:
            raise Inconclusive('extend does not terminate')
        ex.store(st, a[0], Agg('Vec', v.f + (x.payload['Some'][0],)))


def m_vec_truncate(ex, st, m, a):
    v = deref(ex, st, a[0])
    n = a[1]
    if not n.concrete:
        raise Inconclusive('symbolic truncate')
    ex.store(st, a[0], Agg('Vec', v.f[:n.v]))
    return UNIT


def m_vec_len(ex, st, m, a):
    r = a[0]
    if r.length is not None:
        return r.length
    return usize(len(deref(ex, st, r).f))


def m_vec_from_elem(ex, st, m, a):
    n = a[1]
    if not n.concrete:
        raise Inconclusive('symbolic vec length')
    return Agg('Vec', [a[0]] * n.v)


def m_vec_deref(ex, st, m, a):
    r = a[0]
    v = ex.load(st, r)
    return Ref(r.addr, r.path, usize(0), usize(len(v.f)))


def m_vec_reserve(ex, st, m, a):
    return UNIT


def m_to_vec(ex, st, m, a):
    items, _ = seq_items(ex, st, a[0])
    return Agg('Vec', items)


def m_index(ex, st, m, a):
    """<[T] / Vec<T> / [T;N] as Index<usize | Range..>>::index(_mut)"""
    r, i = a
    if isinstance(i, BV):
        base = r
        if base.length is not None:
            s0 = base.start
            idx = ex.bv_add(s0, i) if not (s0.concrete and s0.v == 0) else i
            # bounds
            ex.oblige(st, 'panic', ex.binop('Lt', i, base.length), 'index out of bounds', ('leaf', m.group(0)))
            return Ref(base.addr, base.path + (('i', idx),))
        n = ex.seq_len(st, base)
        c = simp_bool(ex.binop('Lt', i, usize(n)))
        if c is False:
            ex.oblige(st, 'panic', False, 'index out of bounds', ('leaf', m.group(0)))
            raise PathDead()
        if c is not True:
            ex.oblige(st, 'panic', c, 'index out of bounds', ('leaf', m.group(0)))
            st.pc.append(c)
        return base.ext(('i', i))
    if isinstance(i, Agg) and i.ty.endswith('RangeFull') or (isinstance(i, Opaque) and 'RangeFull' in str(i.what)):
        n = ex.seq_len(st, r)
        if r.length is not None:
            return r
        return Ref(r.addr, r.path, usize(0), usize(n))
    if isinstance(i, Agg):
        n = ex.seq_len(st, r)
        s0 = r.start.v if r.length is not None else 0
        nm = i.ty.rsplit('::', 1)[-1]
        if nm == 'Range':
            lo, hi = i.f[0], i.f[1]
        elif nm == 'RangeFrom':
            lo, hi = i.f[0], usize(n)
        elif nm == 'RangeTo':
            lo, hi = usize(0), i.f[0]
        else:
            raise Inconclusive('index by %r' % (i,))
        if not (lo.concrete and hi.concrete):
            raise Inconclusive('symbolic range index')
        if not (lo.v <= hi.v <= n):
            ex.oblige(st, 'panic', False, 'range out of bounds', ('leaf', m.group(0)))
            raise PathDead()
        return Ref(r.addr, r.path, usize(s0 + lo.v), usize(hi.v - lo.v))
    raise Inconclusive('index with %r' % (i,))


def m_slice_len(ex, st, m, a):
    return usize(ex.seq_len(st, a[0]))


def m_min(ex, st, m, a):
    x, y = a
    if x.concrete and y.concrete:
        return x if x.v <= y.v else y
    return BV(x.w, x.s, z3.If(z3.ULE(x.z(), y.z()), x.z(), y.z()))


def m_wrapping(ex, st, m, a):
    op = {'wrapping_mul': 'Mul', 'wrapping_add': 'Add', 'wrapping_sub': 'Sub'}[m.group(1)]
    return ex.binop(op, a[0], a[1])


def m_panic(ex, st, m, a):
    ex.oblige(st, 'panic', False, 'panic: ' + ' '.join(x.s for x in a if isinstance(x, Str)), ('leaf', m.group(0)))
    raise PathDead()


def m_unit(ex, st, m, a):
    return UNIT


def m_default_zero(ex, st, m, a):
    raise Inconclusive('Default::default of ' + m.group(0))


# ff helpers: exact integer semantics
def m_adc(ex, st, m, a):
    x, y, cr = a[0], a[1], a[2]
    c = deref(ex, st, cr)
    if x.concrete and y.concrete and c.concrete:
        t = x.v + y.v + c.v
        ex.store(st, cr, BV(64, False, t >> 64))
        return BV(64, False, t)
    t = z3.ZeroExt(64, x.z()) + z3.ZeroExt(64, y.z()) + z3.ZeroExt(64, c.z())
    ex.store(st, cr, BV(64, False, z3.Extract(127, 64, t)))
    return BV(64, False, z3.Extract(63, 0, t))


def m_sbb(ex, st, m, a):
    x, y, br = a[0], a[1], a[2]
    b = deref(ex, st, br)
    if x.concrete and y.concrete and b.concrete:
        t = (1 << 64) + x.v - y.v - (b.v >> 63)
        ex.store(st, br, BV(64, False, 0 if (t >> 64) else (1 << 64) - 1))
        return BV(64, False, t)
    one = z3.BitVecVal(1, 128) << 64
    t = one + z3.ZeroExt(64, x.z()) - z3.ZeroExt(64, y.z()) - z3.ZeroExt(64, z3.LShR(b.z(), 63))
    hi = z3.Extract(127, 64, t)
    ex.store(st, br, BV(64, False, z3.If(hi == 0, z3.BitVecVal((1 << 64) - 1, 64), z3.BitVecVal(0, 64))))
    return BV(64, False, z3.Extract(63, 0, t))


def m_mac(ex, st, m, a):
    x, y, z_, cr = a
    c = deref(ex, st, cr)
    if x.concrete and y.concrete and z_.concrete and c.concrete:
        t = x.v + y.v * z_.v + c.v
        ex.store(st, cr, BV(64, False, t >> 64))
        return BV(64, False, t)
    t = z3.ZeroExt(64, x.z()) + z3.ZeroExt(64, y.z()) * z3.ZeroExt(64, z_.z()) + z3.ZeroExt(64, c.z())
    ex.store(st, cr, BV(64, False, z3.Extract(127, 64, t)))
    return BV(64, False, z3.Extract(63, 0, t))


def m_default_array(ex, st, m, a):
    ty, n = m.group(1), int(m.group(2))
    w, sg = INT_TYPES[ty]
    return Agg('[array]', [BV(w, sg, 0)] * n)


def m_default_int(ex, st, m, a):
    w, sg = INT_TYPES[m.group(1)]
    return BV(w, sg, 0)


def m_clz(ex, st, m, a):
    x = a[0]
    if x.concrete:
        return BV(32, False, x.w - x.v.bit_length())
    r = z3.BitVecVal(x.w, 32)
    for i in range(x.w):
        r = z3.If(z3.Extract(i, i, x.v) == 1, z3.BitVecVal(x.w - 1 - i, 32), r)
    return BV(32, False, r)


def m_array_as_slice(ex, st, m, a):
    r = a[0]
    if r.length is not None:
        return r
    n = ex.seq_len(st, r)
    return Ref(r.addr, r.path, usize(0), usize(n))


def m_ref_int_op(ex, st, m, a):
    """<&iN as Op<iN>>::op -- arithmetic on a reference to an integer; overflow / division by zero panics in debug
    and release alike for Div/Rem/Neg(MIN) only when they really occur: recorded as obligations"""
    op = m.group('op')
    x = deref(ex, st, a[0]) if isinstance(a[0], Ref) else a[0]
    if op == 'neg':
        mn = BV(x.w, x.s, 1 << (x.w - 1))
        c = simp_bool(b_not(ex.binop('Eq', x, mn)))
        ex.oblige(st, 'panic', c, 'attempt to negate with overflow', ('leaf', m.group(0)))
        return ex.unop(st, 'Neg', x)
    y = deref(ex, st, a[1]) if isinstance(a[1], Ref) else a[1]
    name = {'div': 'Div', 'rem': 'Rem', 'add': 'Add', 'sub': 'Sub', 'mul': 'Mul', 'bitxor': 'BitXor', 'bitor': 'BitOr', 'bitand': 'BitAnd'}[op]
    if name in ('Div', 'Rem'):
        c = simp_bool(b_not(ex.binop('Eq', y, BV(y.w, y.s, 0))))
        ex.oblige(st, 'panic', c, 'division by zero', ('leaf', m.group(0)))
        if x.s:
            c2 = simp_bool(b_not(b_and(ex.binop('Eq', x, BV(x.w, x.s, 1 << (x.w - 1))), ex.binop('Eq', y, BV(y.w, y.s, -1)))))
            ex.oblige(st, 'panic', c2, 'division overflow', ('leaf', m.group(0)))
    return ex.binop(name, x, y)


def m_split_at_mut(ex, st, m, a):
    r, k = a
    n = ex.seq_len(st, r)
    s0 = r.start.v if r.length is not None else 0
    if not k.concrete:
        raise Inconclusive('symbolic split point')
    if k.v > n:
        ex.oblige(st, 'panic', False, 'split_at_mut: mid > len', ('leaf', m.group(0)))
        raise PathDead()
    return Agg('(tuple)', (Ref(r.addr, r.path, usize(s0), usize(k.v)), Ref(r.addr, r.path, usize(s0 + k.v), usize(n - k.v))))


def m_partial_ord_default(ex, st, m, a):
    """default methods lt / le / gt / ge of PartialOrd in terms of the type's own partial_cmp (which must have a MIR body)"""
    ty, meth = m.group('ty'), m.group('meth')
    r = ex.call(st, '<%s as PartialOrd>::partial_cmp' % ty, list(a))
    if not (isinstance(r, Enum) and 'Some' in r.payload):
        raise Inconclusive('partial_cmp returned %r' % (r,))
    o = r.payload['Some'][0]
    d = o.disc
    if isinstance(d, int):
        return {'lt': d == -1, 'le': d != 1, 'gt': d == 1, 'ge': d != -1}[meth]
    neg1, pos1 = z3.BitVecVal((1 << 64) - 1, 64), z3.BitVecVal(1, 64)
    return {'lt': d == neg1, 'le': d != pos1, 'gt': d == pos1, 'ge': d != neg1}[meth]


def m_prim_cmp(ex, st, m, a):
    x, y = a
    while isinstance(x, Ref):
        x = deref(ex, st, x)
    while isinstance(y, Ref):
        y = deref(ex, st, y)
    op = {'lt': 'Lt', 'le': 'Le', 'gt': 'Gt', 'ge': 'Ge', 'eq': 'Eq', 'ne': 'Ne'}[m.group('meth')]
    return ex.binop(op, x, y)


STD_MODELS = [
    (r'<&*(?:u8|u16|u32|u64|usize|i32|i64|isize|bool) as Partial(?:Ord|Eq)(?:<.+>)?>::(?P<meth>lt|le|gt|ge|eq|ne)', m_prim_cmp),
    (r'<(?P<ty>[\w:]+) as PartialOrd>::(?P<meth>lt|le|gt|ge)', m_partial_ord_default),
    (r'core::slice::<impl \[.+\]>::split_at(_mut)?', m_split_at_mut),
    (r'<&(?:i64|u64|usize|i32|u32) as (?:std::ops::)?(?:Neg|Div<\w+>|Rem<\w+>|Add<\w+>|Sub<\w+>|Mul<\w+>)>::(?P<op>neg|div|rem|add|sub|mul)', m_ref_int_op),
    (r'<&(?:u8|u16|i64|u64|usize|i32|u32) as (?:std::ops::)?Bit(?:Xor|Or|And)(?:<.+>)?>::(?P<op>bitxor|bitor|bitand)', m_ref_int_op),
    (r'<\[(u8|u16|u32|u64|usize|i64); (\d+)\] as Default>::default', m_default_array),
    (r'<(u8|u16|u32|u64|usize|i64|i32) as Default>::default', m_default_int),
    (r'core::num::<impl (?:u64|u32|usize)>::leading_zeros', m_clz),
    (r'<\[.+; \d+\] as AsRef<\[.+\]>>::as_ref', m_array_as_slice),
    (r'<\[.+; \d+\] as AsMut<\[.+\]>>::as_mut', m_array_as_slice),
    (r'<.+ as Clone>::clone', m_clone),
    (r'<.+ as Into<.+>>::into', m_identity),
    (r'<.+ as From<.+>>::from', lambda ex, st, m, a: NotImplemented),
    (r'<.+ as IntoIterator>::into_iter', lambda ex, st, m, a: m_into_iter(ex, st, m, a)),
    (r'<(std::ops::|core::ops::)?Range<\w+> as Iterator>::next', m_range_next),
    (r'<(std::ops::|core::ops::)?RangeInclusive<\w+> as Iterator>::next', m_range_incl_next),
    (r'(std::ops::|core::ops::)?RangeInclusive::<\w+>::new', m_range_incl_new),
    (r'<.+ as Iterator>::rev', m_rev),
    (r'<.+ as Iterator>::zip::<.+>', m_zip),
    (r'<.+ as Iterator>::enumerate', m_enumerate),
    (r'<.+ as Iterator>::for_each::<.+>', m_for_each),
    (r'<.+ as Iterator>::map::<.+>', m_iter_adapt('MapIter')),
    (r'<.+ as Iterator>::filter::<.+>', m_iter_adapt('Filter')),
    (r'<.+ as Iterator>::take_while::<.+>', m_iter_adapt('TakeWhile')),
    (r'<.+ as Iterator>::skip', m_iter_adapt('Skip')),
    (r'<.+ as Iterator>::chain::<.+>', m_iter_adapt('Chain')),
    (r'<.+ as Iterator>::collect::<Vec<.+>>', m_collect_vec),
    (r'<.+ as Iterator>::all::<.+>', m_iter_all),
    (r'<.+ as Iterator>::next', m_generic_next),
    (r'core::slice::<impl \[.+\]>::iter(_mut)?', m_slice_iter),
    (r'core::slice::<impl \[.+\]>::len', m_slice_len),
    (r'core::slice::<impl \[.+\]>::to_vec', m_to_vec),
    (r'slice::<impl \[.+\]>::to_vec', m_to_vec),
    (r'(std|core)::mem::swap::<.+>', m_swap),
    (r'(std|core)::mem::replace::<.+>', m_replace),
    (r'Option::<.+>::map::<.+>', m_option_map),
    (r'Option::<.+>::unwrap', m_option_unwrap),
    (r'Option::<.+>::expect', m_option_unwrap),
    (r'Result::<.+>::unwrap', m_result_unwrap),
    (r'Option::<.+>::is_some', m_option_is_some),
    (r'Option::<.+>::is_none', m_option_is_none),
    (r'(ff::)?BitIterator::<.+>::new', m_bititer_new),
    (r'Vec::<.+>::new', m_vec_new),
    (r'Vec::<.+>::with_capacity', m_vec_new),
    (r'Vec::<.+>::push', m_vec_push),
    (r'Vec::<.+>::truncate', m_vec_truncate),
    (r'<Vec<.+> as Extend<.+>>::extend::<.+>', m_vec_extend),
    (r'Vec::<.+>::extend::<.+>', m_vec_extend),
    (r'core::slice::<impl \[.+\]>::chunks(?:_mut)?', m_slice_chunks),
    (r'core::slice::<impl \[.+\]>::copy_from_slice', m_copy_from_slice),
    (r'Vec::<.+>::len', m_vec_len),
    (r'Vec::<.+>::reserve', m_vec_reserve),
    (r'(std::vec::|alloc::vec::)?from_elem::<.+>', m_vec_from_elem),
    (r'<Vec<.+> as (std::ops::)?Deref(Mut)?>::deref(_mut)?', m_vec_deref),
    (r'<Vec<.+> as AsRef<\[.+\]>>::as_ref', m_vec_deref),
    (r'<(Vec<.+>|\[.+\]) as (std::ops::)?Index(Mut)?<.+>>::index(_mut)?', m_index),
    (r'(std|core)::cmp::min::<usize>', m_min),
    (r'<usize as (?:std::cmp::|core::cmp::)?Ord>::min', m_min),
    (r'core::num::<impl u64>::(wrapping_mul|wrapping_add|wrapping_sub)', m_wrapping),
    (r'core::num::<impl usize>::(wrapping_mul|wrapping_add|wrapping_sub)', m_wrapping),
    (r'(core::panicking::panic\w*|std::rt::begin_panic::<.+>|core::panicking::assert_failed::<.+>|std::rt::panic_fmt|core::panicking::panic_fmt)', m_panic),
    (r'(ff::)?adc', m_adc),
    (r'(ff::)?sbb', m_sbb),
    (r'(ff::)?mac_with_carry', m_mac),
]


# ------------------------------------------------------------------ ring domain
def _monomials(t):
    """t: result of simplify(som=True). returns {tuple(sorted factor strings)}: (coef, [factor terms])} or None"""
    terms = t.children() if z3.is_add(t) else [t]
    out = {}
    for m in terms:
        coef, facs = 1, []
        stack = [m]
        while stack:
            x = stack.pop()
            if z3.is_mul(x):
                stack.extend(x.children())
            elif z3.is_int_value(x):
                coef *= x.as_long()
            elif z3.is_app_of(x, z3.Z3_OP_UMINUS):
                coef = -coef
                stack.append(x.children()[0])
            else:
                facs.append(x)
        facs.sort(key=lambda f: (str(f.decl()), f.get_id()) if z3.is_const(f) else (str(f), f.get_id()))
        key = tuple(str(f) if z3.is_const(f) else 'T%d' % f.get_id() for f in facs)
        if key in out:
            out[key] = (out[key][0] + coef, facs)
        else:
            out[key] = (coef, facs)
    return out


def canon_poly(e):
    """canonical representative of the polynomial e up to sign (monomials and factors sorted by name, leading
    coefficient positive) so that syntactically different writings of p and -p give the same term"""
    if isinstance(e, int):
        return z3.IntVal(e)
    t = z3.simplify(e, som=True)
    if z3.is_int_value(t):
        return t
    mons = _monomials(t)
    keys = sorted(k for k in mons if mons[k][0] != 0)
    if not keys:
        return z3.IntVal(0)
    sign = 1 if mons[keys[0]][0] > 0 else -1
    parts = []
    for k in keys:
        c, facs = mons[k]
        c *= sign
        term = None
        for f in facs:
            term = f if term is None else term * f
        if term is None:
            parts.append(z3.IntVal(c))
        else:
            parts.append(term if c == 1 else z3.IntVal(c) * term)
    r = parts[0]
    for x in parts[1:]:
        r = r + x
    return r


def _const_limbs(v):
    while isinstance(v, Agg) and len(v.f) == 1 and isinstance(v.f[0], Agg):
        v = v.f[0]
    if isinstance(v, Agg) and v.f and all(isinstance(x, BV) and x.concrete for x in v.f):
        return [x.v for x in v.f]
    return None


class RingDomain:
    """Abstract commutative ring replacing a leaf field type.

    Elements are integer terms; ==/is_zero are an uninterpreted predicate `isz` over the
    difference (no integer-specific reasoning leaks into case analysis); inverse() yields a
    fresh symbol t with the recorded fact t*n = 1 on the Some branch.
    """

    def __init__(self, ty_pat, name='R', consts=None, concrete_mod=None, const_muls=None):
        # const_muls: {callee regex: symbol name}  -- methods of the leaf type that multiply by a fixed ring element
        self.const_muls = const_muls or {}
        self.const_mul_syms = {}
        self.ty_pat = ty_pat
        self.name = name
        self.isz = z3.Function('isz_' + name, z3.IntSort(), z3.BoolSort())
        self.inv_facts = []      # (t, n)
        self.inv_pcs = []        # path condition under which each inversion was made (parallel to inv_facts)
        self.counter = 0
        self.consts = consts or {}
        self.opaque = {}
        self.concrete_mod = concrete_mod

    def fresh(self, base):
        self.counter += 1
        return z3.Int('%s_%s%d' % (self.name, base, self.counter))

    def iszero(self, e):
        if isinstance(e, int):
            if self.concrete_mod:
                return e % self.concrete_mod == 0
            return e == 0
        s = canon_poly(e)
        if z3.is_int_value(s):
            v = s.as_long()
            if self.concrete_mod:
                return v % self.concrete_mod == 0
            if v == 0:
                return True
            # a non-zero integer constant may still vanish in a ring of small characteristic;
            # keep it symbolic unless it is +-1
            if abs(v) == 1:
                return False
        return self.isz(s)

    def const_symbol(self, v):
        """named constant of the leaf type (concrete limbs) -> integer symbol, value recorded"""
        limbs = _const_limbs(v)
        if limbs is None:
            raise Inconclusive('leaf-typed value is neither abstract nor a constant: %r' % (v,))
        key = tuple(limbs)
        if key not in self.opaque:
            n = sum(l << (64 * i) for i, l in enumerate(limbs))
            sym = z3.Int('%s_k%d' % (self.name, len(self.opaque)))
            self.opaque[key] = (sym, n)
        return FE(v.ty, self.opaque[key][0])

    def install(self, ex):
        """constants of the leaf type become named symbols as soon as they are built"""
        def hook(v):
            if _const_limbs(v) is not None:
                return self.const_symbol(v)
            return None
        ex.add_adt_hook(self.ty_pat, hook)

    def coerce(self, x):
        if isinstance(x, FE):
            return x
        if isinstance(x, Agg):
            return self.const_symbol(x)
        return None

    def models(self):
        T = self.ty_pat
        F = r'<' + T + r' as (?:ff::)?Field>::'
        D = self

        def ty_of(m):
            return m.group('ty') if 'ty' in m.groupdict() else None

        def binop(fn):
            def h(ex, st, m, a):
                x, y = D.coerce(deref(ex, st, a[0])), D.coerce(deref(ex, st, a[1]))
                if x is None or y is None:
                    return NotImplemented
                ex.store(st, a[0], FE(x.ty, fn(x.e, y.e)))
                return UNIT
            return h

        def unop(fn):
            def h(ex, st, m, a):
                x = D.coerce(deref(ex, st, a[0]))
                if x is None:
                    return NotImplemented
                ex.store(st, a[0], FE(x.ty, fn(x.e)))
                return UNIT
            return h

        def h_zero(ex, st, m, a):
            return FE(norm(m.group(1)), 0)

        def h_one(ex, st, m, a):
            return FE(norm(m.group(1)), 1)

        def norm(t):
            return t

        def h_is_zero(ex, st, m, a):
            x = D.coerce(deref(ex, st, a[0]))
            if x is None:
                return NotImplemented
            return D.iszero(x.e)

        def h_eq(ex, st, m, a):
            x, y = D.coerce(deref(ex, st, a[0])), D.coerce(deref(ex, st, a[1]))
            if x is None or y is None:
                return NotImplemented
            if same(x.e, y.e):
                return True
            return D.iszero(x.e - y.e)

        def h_ne(ex, st, m, a):
            return b_not(h_eq(ex, st, m, a))

        def h_inverse(ex, st, m, a):
            x = D.coerce(deref(ex, st, a[0]))
            if x is None:
                return NotImplemented
            z = D.iszero(x.e)
            if z is True:
                return none()
            t = D.fresh('inv')
            D.inv_facts.append((t, x.e))
            D.inv_pcs.append(list(st.pc))
            return opt_sym(b_not(z), FE(x.ty, t))

        def h_frob(ex, st, m, a):
            return UNIT     # Frobenius on the prime field is the identity

        extra = []
        for pat, symname in self.const_muls.items():
            sym = z3.Int(self.name + '_' + symname)
            self.const_mul_syms[symname] = sym
            extra.append((pat, unop(lambda x, sym=sym: x * sym)))
        return extra + [
            (r'<(' + T + r') as (?:ff::)?Field>::zero', h_zero),
            (r'<(' + T + r') as (?:ff::)?Field>::one', h_one),
            (F + 'mul_assign', binop(lambda x, y: x * y)),
            (F + 'add_assign', binop(lambda x, y: x + y)),
            (F + 'sub_assign', binop(lambda x, y: x - y)),
            (F + 'square', unop(lambda x: x * x)),
            (F + 'double', unop(lambda x: 2 * x)),
            (F + 'negate', unop(lambda x: -x)),
            (F + 'is_zero', h_is_zero),
            (F + 'inverse', h_inverse),
            (F + 'frobenius_map', h_frob),
            (r'<' + T + r' as PartialEq>::eq', h_eq),
            (r'<' + T + r' as PartialEq>::ne', h_ne),
        ]


# ------------------------------------------------------------------ exponent domain
class GroupDomain:
    """Abstract abelian group replacing a curve-point type (or Fq12 regarded multiplicatively).

    An element is a coefficient vector over formal generators; the group operations of the leaf type
    act linearly on it.  That the real operations do act this way is the conclusion of C01 (curve
    groups) resp. C09 (Fq12): this domain is how those conclusions are *assumed* by C02/C10/C12/C17.
    Coefficients are python ints (optionally reduced modulo `modulus`) or z3 terms.
    """

    def __init__(self, proj_pat, affine_pat=None, modulus=None, name='G'):
        self.proj_pat, self.affine_pat, self.modulus, self.name = proj_pat, affine_pat, modulus, name
        self.ops = 0

    def norm(self, x):
        if isinstance(x, int) and self.modulus:
            return x % self.modulus
        return x

    def add(self, a, b):
        self.ops += 1
        return GE(a.ty, [self.norm(x + y) for x, y in zip(a.c, b.c)], a.tag)

    def neg(self, a):
        return GE(a.ty, [self.norm(-x) for x in a.c], a.tag)

    def scale(self, a, k):
        return GE(a.ty, [self.norm(x * k) for x in a.c], a.tag)

    def is_zero(self, a):
        zp = getattr(self, 'zero_pred', None)
        if zp is not None:          # generators of finite (symbolic) order: c*P = O iff ord(P) | c
            return b_and(*[zp(x) for x in a.c])
        return b_and(*[(x == 0) if isinstance(x, int) else simp_bool(x == 0) for x in a.c])

    def models(self):
        P = self.proj_pat
        A = self.affine_pat or 'NO_AFFINE_TYPE'
        ANY = '(?:' + P + '|' + A + ')'
        D = self

        def g(ex, st, r):
            v = deref(ex, st, r) if isinstance(r, Ref) else r
            if not isinstance(v, GE):
                return None
            return v

        def h_zero(ex, st, m, a):
            return GE(m.group(1), [0] * D.arity)

        def h_is_zero(ex, st, m, a):
            x = g(ex, st, a[0])
            if x is None:
                return NotImplemented
            return D.is_zero(x)

        def h_double(ex, st, m, a):
            x = g(ex, st, a[0])
            if x is None:
                return NotImplemented
            ex.store(st, a[0], D.add(x, x))
            return UNIT

        def h_add(ex, st, m, a):
            x, y = g(ex, st, a[0]), g(ex, st, a[1])
            if x is None or y is None:
                return NotImplemented
            ex.store(st, a[0], D.add(x, y))
            return UNIT

        def h_sub(ex, st, m, a):
            x, y = g(ex, st, a[0]), g(ex, st, a[1])
            if x is None or y is None:
                return NotImplemented
            ex.store(st, a[0], D.add(x, D.neg(y)))
            return UNIT

        def h_negate(ex, st, m, a):
            x = g(ex, st, a[0])
            if x is None:
                return NotImplemented
            ex.store(st, a[0], D.neg(x))
            return UNIT

        def h_conv(target):
            def h(ex, st, m, a):
                x = g(ex, st, a[0])
                if x is None:
                    return NotImplemented
                ty = x.ty
                if target == 'affine' and D.affine_pat:
                    ty = D.affine_name
                if target == 'proj':
                    ty = D.proj_name
                return GE(ty, x.c, x.tag)
            return h

        def h_eq(ex, st, m, a):
            x, y = g(ex, st, a[0]), g(ex, st, a[1])
            if x is None or y is None:
                return NotImplemented
            return D.is_zero(D.add(x, D.neg(y)))

        CP = r' as (?:crate::)?CurveProjective>::'
        CA = r' as (?:crate::)?CurveAffine>::'
        return [
            (r'<(' + P + r')' + CP + 'zero', h_zero),
            (r'<(' + A + r')' + CA + 'zero', h_zero),
            (r'<' + P + r'>' + CP + 'is_zero|<' + P + CP + 'is_zero', h_is_zero),
            (r'<' + A + CA + 'is_zero', h_is_zero),
            (r'<' + P + CP + 'double', h_double),
            (r'<' + P + CP + 'add_assign', h_add),
            (r'<' + P + CP + 'add_assign_mixed', h_add),
            (r'<' + P + CP + 'negate', h_negate),
            (r'<' + A + CA + 'negate', h_negate),
            (r'<' + P + CP + 'into_affine', h_conv('affine')),
            (r'<' + A + CA + 'into_projective', h_conv('proj')),
            (r'<' + P + r' as From<' + A + r'>>::from', h_conv('proj')),
            (r'<' + A + r' as From<' + P + r'>>::from', h_conv('affine')),
            (r'<' + A + r' as Into<' + P + r'>>::into', h_conv('proj')),
            (r'<' + P + r' as Into<' + A + r'>>::into', h_conv('affine')),
            (r'<' + ANY + r' as PartialEq>::eq', h_eq),
        ]

    def setup(self, arity, proj_name, affine_name=None):
        self.arity, self.proj_name, self.affine_name = arity, proj_name, affine_name
        return self

    def gen(self, i, ty=None):
        c = [0] * self.arity
        c[i] = 1
        return GE(ty or self.proj_name, c)


class UnitGroupDomain:
    """Fq12^* as a cyclic group of order q^12-1 written additively on exponents of a formal generator.

    mul_assign adds, square doubles, inverse negates, frobenius_map(k) multiplies by q^k, conjugate by
    q^6, pow(e) by e.  These actions are consequences of C09 (ring identities + Frobenius = x^(q^k));
    the element 0 is represented by a symbolic flag carried in GE.tag (inverse() is None exactly then).
    """

    def __init__(self, q, ty='fq12::Fq12', degree=12):
        self.q, self.ty = q, ty
        self.N = q ** degree - 1
        self.ops = 0

    def mk(self, e, zero_flag=False):
        return GE(self.ty, [e % self.N], zero_flag)

    def models(self):
        D = self
        T = re.escape(self.ty)
        F = r'<' + T + r' as (?:ff::)?Field>::'

        def g(ex, st, r):
            v = deref(ex, st, r)
            return v if isinstance(v, GE) else None

        def h_mul(ex, st, m, a):
            x, y = g(ex, st, a[0]), g(ex, st, a[1])
            if x is None or y is None:
                return NotImplemented
            D.ops += 1
            ex.store(st, a[0], GE(x.ty, [(x.c[0] + y.c[0]) % D.N], b_or(x.tag, y.tag)))
            return UNIT

        def h_sq(ex, st, m, a):
            x = g(ex, st, a[0])
            if x is None:
                return NotImplemented
            D.ops += 1
            ex.store(st, a[0], GE(x.ty, [(2 * x.c[0]) % D.N], x.tag))
            return UNIT

        def h_inv(ex, st, m, a):
            x = g(ex, st, a[0])
            if x is None:
                return NotImplemented
            return opt_sym(b_not(x.tag), GE(x.ty, [(-x.c[0]) % D.N], x.tag))

        def h_frob(ex, st, m, a):
            x = g(ex, st, a[0])
            if x is None:
                return NotImplemented
            k = a[1]
            if not (isinstance(k, BV) and k.concrete):
                raise Inconclusive('symbolic Frobenius power in exponent domain')
            ex.store(st, a[0], GE(x.ty, [(x.c[0] * pow(D.q, k.v, D.N)) % D.N], x.tag))
            return UNIT

        def h_conj(ex, st, m, a):
            x = g(ex, st, a[0])
            if x is None:
                return NotImplemented
            ex.store(st, a[0], GE(x.ty, [(x.c[0] * pow(D.q, 6, D.N)) % D.N], x.tag))
            return UNIT

        def h_one(ex, st, m, a):
            return GE(D.ty, [0], False)

        def h_pow(ex, st, m, a):
            x = g(ex, st, a[0])
            if x is None:
                return NotImplemented
            limbs = _limbs(ex, st, a[1])
            if not all(l.concrete for l in limbs):
                raise Inconclusive('symbolic exponent in pow')
            e = sum(l.v << (64 * i) for i, l in enumerate(limbs))
            return GE(x.ty, [(x.c[0] * e) % D.N], x.tag)

        return [
            (F + 'mul_assign', h_mul), (F + 'square', h_sq), (F + 'inverse', h_inv), (F + 'frobenius_map', h_frob),
            (F + 'one', h_one), (F + r'pow::<.+>', h_pow), (r'fq12::Fq12::conjugate', h_conj),
            (r'<' + T + r' as Clone>::clone', lambda ex, st, m, a: deref(ex, st, a[0])),
        ]
