"""Symbolic executor for rustc MIR (engine S).

Values are immutable trees; memory is a dict addr -> value so that states can be cloned and
merged cheaply.  Symbolic branches fork and re-join at the immediate post-dominator with
if-then-else merging; panics become obligations.  Anything not understood raises Inconclusive.
"""
import re, itertools, os
import z3
from . import mir
from .mir import MirSyntax, norm_ty


class Inconclusive(Exception):
    pass


class PathDead(Exception):
    """the current path ended in a panic / abort (already recorded)"""
    pass


# ------------------------------------------------------------------ values
class BV:
    __slots__ = ('w', 's', 'v')

    def __init__(self, w, s, v):
        self.w, self.s = w, s
        if isinstance(v, int):
            v &= (1 << w) - 1
        self.v = v

    @property
    def concrete(self):
        return isinstance(self.v, int)

    def sval(self):
        v = self.v
        if self.s and v >> (self.w - 1):
            v -= 1 << self.w
        return v

    def z(self):
        return z3.BitVecVal(self.v, self.w) if isinstance(self.v, int) else self.v

    def __repr__(self):
        return 'BV%s%d(%s)' % ('i' if self.s else 'u', self.w, self.sval() if self.concrete else self.v)


class FE:
    """leaf field element of the ring domain; e is a python int or a z3 Int term"""
    __slots__ = ('ty', 'e')

    def __init__(self, ty, e):
        self.ty, self.e = ty, e

    def __repr__(self):
        return 'FE<%s>(%s)' % (self.ty, self.e)


class GE:
    """group element in the exponent domain: tuple of coefficients over formal generators"""
    __slots__ = ('ty', 'c', 'tag')

    def __init__(self, ty, c, tag=None):
        self.ty, self.c, self.tag = ty, tuple(c), tag

    def __repr__(self):
        return 'GE<%s>%s' % (self.ty, self.c)


class Agg:
    __slots__ = ('ty', 'f')

    def __init__(self, ty, f):
        self.ty, self.f = ty, tuple(f)

    def __repr__(self):
        return '%s%s' % (self.ty, list(self.f))


class Enum:
    """disc: python int or z3 BitVec(64); payload: {variant name: tuple(fields)}"""
    __slots__ = ('ty', 'disc', 'payload')

    def __init__(self, ty, disc, payload):
        self.ty, self.disc, self.payload = ty, disc, payload

    def __repr__(self):
        return 'Enum<%s>(%s,%s)' % (self.ty, self.disc, self.payload)


class Ref:
    __slots__ = ('addr', 'path', 'start', 'length')

    def __init__(self, addr, path=(), start=None, length=None):
        self.addr, self.path, self.start, self.length = addr, tuple(path), start, length

    def ext(self, el):
        return Ref(self.addr, self.path + (el,))

    def __repr__(self):
        return 'Ref(%s%s%s)' % (self.addr, list(self.path), '' if self.length is None else '[%s+%s]' % (self.start, self.length))

    def key(self):
        return (self.addr, self.path, _k(self.start), _k(self.length))


def _k(x):
    if isinstance(x, BV):
        return ('bv', x.w, x.v if x.concrete else x.v.get_id())
    return x


class LazySeq:
    """read-only sequence given by a function of the (possibly symbolic) index: models large tables"""
    __slots__ = ('n', 'get', 'what')

    def __init__(self, n, get, what=''):
        self.n, self.get, self.what = n, get, what

    def __repr__(self):
        return 'LazySeq(%s,%s)' % (self.n, self.what)


class CutReached(Exception):
    """raised by a cut handler to stop symbolic execution at a cut point (state captured)"""

    def __init__(self, st, fr, info=None):
        self.st, self.fr, self.info = st, fr, info


class Str:
    __slots__ = ('s',)

    def __init__(self, s):
        self.s = s

    def __repr__(self):
        return 'Str(%r)' % self.s


class Opaque:
    """a value we carry around but never look into (fn pointers, PhantomData, floats...)"""
    __slots__ = ('what',)

    def __init__(self, what):
        self.what = what

    def __repr__(self):
        return 'Opaque(%s)' % (self.what,)


UNIT = Agg('()', ())

INT_TYPES = {'u8': (8, False), 'u16': (16, False), 'u32': (32, False), 'u64': (64, False), 'u128': (128, False),
             'usize': (64, False), 'i8': (8, True), 'i16': (16, True), 'i32': (32, True), 'i64': (64, True),
             'i128': (128, True), 'isize': (64, True)}

VARIANTS = {
    'Option': {'None': 0, 'Some': 1},
    'Result': {'Ok': 0, 'Err': 1},
    'ControlFlow': {'Continue': 0, 'Break': 1},
    'Ordering': {'Less': -1, 'Equal': 0, 'Greater': 1},
    'Sgn0Result': {'NonNegative': 0, 'Negative': 1},
    'LegendreSymbol': {'Zero': 0, 'QuadraticResidue': 1, 'QuadraticNonResidue': -1},
    'GroupDecodingError': {'NotOnCurve': 0, 'NotInSubgroup': 1, 'CoordinateDecodingError': 2,
                           'UnexpectedCompressionMode': 3, 'UnexpectedInformation': 4},
    'PrimeFieldDecodingError': {'NotInField': 0},
    'ErrorKind': None,
}


DEFAULT_ASSOC = {}
for _g, _b in (('g1', 'fq::Fq'), ('g2', 'fq2::Fq2')):
    _P, _A = 'ec::%s::%s' % (_g, _g.upper()), 'ec::%s::%sAffine' % (_g, _g.upper())
    for _self in (_P, _A):
        for _tr in ('CurveProjective', 'CurveAffine'):
            DEFAULT_ASSOC['<%s as %s>::Base' % (_self, _tr)] = _b
            DEFAULT_ASSOC['<%s as %s>::Scalar' % (_self, _tr)] = 'fr::Fr'
            DEFAULT_ASSOC['<%s as %s>::Engine' % (_self, _tr)] = 'Bls12'
    DEFAULT_ASSOC['<%s as CurveProjective>::Affine' % _P] = _A
    DEFAULT_ASSOC['<%s as CurveAffine>::Projective' % _A] = _P
    DEFAULT_ASSOC['<%s as CurveAffine>::Prepared' % _A] = 'ec::%s::%sPrepared' % (_g, _g.upper())
    DEFAULT_ASSOC['<%s as CurveAffine>::Uncompressed' % _A] = 'ec::%s::%sUncompressed' % (_g, _g.upper())
    DEFAULT_ASSOC['<%s as CurveAffine>::Compressed' % _A] = 'ec::%s::%sCompressed' % (_g, _g.upper())
DEFAULT_ASSOC['<fr::Fr as PrimeField>::Repr'] = 'fr::FrRepr'
DEFAULT_ASSOC['<fr::Fr as ff::PrimeField>::Repr'] = 'fr::FrRepr'
DEFAULT_ASSOC['<fq::Fq as PrimeField>::Repr'] = 'fq::FqRepr'
DEFAULT_ASSOC['<fq::Fq as ff::PrimeField>::Repr'] = 'fq::FqRepr'


def is_sym(x):
    return isinstance(x, z3.ExprRef)


def mk_bool(x):
    return z3.BoolVal(x) if isinstance(x, bool) else x


def b_and(*xs):
    out = []
    for x in xs:
        if x is True:
            continue
        if x is False:
            return False
        out.append(x)
    if not out:
        return True
    return out[0] if len(out) == 1 else z3.And(*out)


def b_or(*xs):
    out = []
    for x in xs:
        if x is False:
            continue
        if x is True:
            return True
        out.append(x)
    if not out:
        return False
    return out[0] if len(out) == 1 else z3.Or(*out)


def b_not(x):
    if isinstance(x, bool):
        return not x
    return z3.Not(x)


def simp_bool(x):
    if isinstance(x, bool):
        return x
    s = z3.simplify(x)
    if z3.is_true(s):
        return True
    if z3.is_false(s):
        return False
    return s


def b_ite(c, a, b):
    if c is True:
        return a
    if c is False:
        return b
    if a is b:
        return a
    if isinstance(a, bool) and isinstance(b, bool):
        if a == b:
            return a
        return c if a else z3.Not(c)
    return z3.If(c, mk_bool(a), mk_bool(b))


def same(a, b):
    if a is b:
        return True
    if isinstance(a, (int, bool)) and isinstance(b, (int, bool)):
        return a == b
    if is_sym(a) and is_sym(b):
        return a.eq(b)
    return False


def ite_term(c, a, b):
    """c: z3 bool; a, b: python int or z3 term of equal sort"""
    if same(a, b):
        return a
    return z3.If(c, a, b)


class MergeFail(Inconclusive):
    pass


def merge(c, a, b):
    """value that is a when c else b"""
    if a is b:
        return a
    if a is None:
        return b
    if b is None:
        return a
    ta, tb = type(a), type(b)
    if ta is bool or tb is bool or (is_sym(a) and z3.is_bool(a)) or (is_sym(b) and z3.is_bool(b)):
        return b_ite(c, a, b)
    if ta is BV and tb is BV:
        if a.w != b.w:
            raise MergeFail('bv width %d / %d' % (a.w, b.w))
        if a.concrete and b.concrete and a.v == b.v:
            return a
        if not a.concrete and not b.concrete and a.v.eq(b.v):
            return a
        return BV(a.w, a.s, z3.If(c, a.z(), b.z()))
    if ta is FE and tb is FE:
        if same(a.e, b.e):
            return a
        return FE(a.ty, z3.If(c, _zi(a.e), _zi(b.e)))
    if ta is GE and tb is GE:
        if len(a.c) != len(b.c):
            raise MergeFail('GE arity')
        return GE(a.ty, [x if same(x, y) else z3.If(c, _zc(x, y), _zc(y, x)) for x, y in zip(a.c, b.c)], a.tag)
    if ta is Agg and tb is Agg:
        if len(a.f) != len(b.f):
            raise MergeFail('aggregate length differs: %s / %s' % (a.ty, b.ty))
        return Agg(a.ty, [merge(c, x, y) for x, y in zip(a.f, b.f)])
    if ta is Enum and tb is Enum:
        da = a.disc if isinstance(a.disc, int) else a.disc
        db = b.disc if isinstance(b.disc, int) else b.disc
        if isinstance(da, int) and isinstance(db, int) and da == db:
            disc = da
        else:
            disc = z3.If(c, _bv64(da), _bv64(db))
        pay = {}
        for k in set(a.payload) | set(b.payload):
            if k in a.payload and k in b.payload:
                pay[k] = tuple(merge(c, x, y) for x, y in zip(a.payload[k], b.payload[k]))
            else:
                pay[k] = a.payload.get(k, b.payload.get(k))
        return Enum(a.ty, disc, pay)
    if ta is Ref and tb is Ref:
        if a.key() == b.key():
            return a
        raise MergeFail('distinct references %s%s / %s%s' % (a.addr, [e[0] for e in a.path], b.addr, [e[0] for e in b.path]))
    if ta is Str and tb is Str and a.s == b.s:
        return a
    if ta is Opaque and tb is Opaque:
        return a
    if ta is int and tb is int and a == b:
        return a
    raise MergeFail('cannot merge %s with %s' % (type(a).__name__, type(b).__name__))


def _zi(e):
    return z3.IntVal(e) if isinstance(e, int) else e


def _zc(x, like):
    if isinstance(x, int):
        if is_sym(like):
            if z3.is_bv(like):
                return z3.BitVecVal(x, like.size())
            return z3.IntVal(x)
        return z3.IntVal(x)
    return x


def _bv64(d):
    return z3.BitVecVal(d, 64) if isinstance(d, int) else d


# ------------------------------------------------------------------ state
class State:
    __slots__ = ('mem', 'pc')

    def __init__(self):
        self.mem = {}
        self.pc = []

    def clone(self):
        s = State()
        s.mem = dict(self.mem)
        s.pc = list(self.pc)
        return s


class Frame:
    _ids = itertools.count(1)
    __slots__ = ('id', 'fn', 'subst', 'visits')

    def __init__(self, fn, subst):
        self.id = next(Frame._ids)
        self.fn, self.subst = fn, subst
        self.visits = {}


class Obligation:
    __slots__ = ('kind', 'pc', 'cond', 'msg', 'where')

    def __init__(self, kind, pc, cond, msg, where):
        self.kind, self.pc, self.cond, self.msg, self.where = kind, list(pc), cond, msg, where

    def formula(self):
        """negation is satisfiable  <=>  violated.  returns z3 formula asserting the violation"""
        return z3.And(*[mk_bool(p) for p in self.pc], z3.Not(mk_bool(self.cond))) if self.pc else z3.Not(mk_bool(self.cond))


# ------------------------------------------------------------------ executor
ALL_EXECUTORS = []


class Executor:
    def __init__(self, fns, consts, leaf_ops=(), generics_hint=None, unroll_limit=600, assoc_types=None,
                 panic_policy='obligation', prune=False, solver_timeout_ms=20000):
        self.fns, self.consts = fns, consts
        self.leaf_ops = [(re.compile(p), h) for p, h in leaf_ops]
        self.generics_hint = generics_hint or {}
        self.assoc_types = assoc_types or {}
        self.unroll_limit = unroll_limit
        self.obligations = []
        self.ncalls = 0
        self.nforks = 0
        self.nmerges = 0
        self.encoded = {}          # fn name -> text hash
        self.leaf_used = {}
        self.const_cache = {}
        self.static_counter = itertools.count(1)
        self.prune = prune
        self.solver_timeout_ms = solver_timeout_ms
        self.closure_index = {}
        for name, fl in fns.items():
            for f in fl:
                if '{closure#' in name and f.params:
                    m = re.search(r'\{closure@[^}]*\}', f.params[0][1])
                    if m:
                        self.closure_index.setdefault(m.group(0), []).append(f)
        self.by_method = {}
        for name, fl in fns.items():
            meth = name.rsplit('::', 1)[-1]
            for f in fl:
                self.by_method.setdefault(meth, []).append(f)
        self.trace = None
        self.fn_stack = []
        self.binop_hooks = []
        self.fe_field = None       # optional: components of an abstract (leaf) struct value, e.g. c0/c1 of an abstract Fq2
        self.harvested = 0         # obligations[:harvested] have been turned into solver queries by the check
        ALL_EXECUTORS.append(self)
        self.cuts = {}             # (fn name, block) -> handler(ex, st, fr, nvisit); may edit the state or raise CutReached
        self.adt_hooks = []

    def add_adt_hook(self, pat, h):
        self.adt_hooks.append((re.compile(pat), h))
        self.const_cache.clear()

    # ---------------------------------------------------------- cut-point helpers
    def closure_body(self, ty):
        cands = self.closure_index.get(ty) or []
        if len(cands) == 1:
            return cands[0]
        if not cands:
            return None
        # same source span instantiated several times (macro): take the one defined inside the current function
        cur = self.fn_stack[-1].name if self.fn_stack else ''
        best = [f for f in cands if f.name.startswith(cur + '::{closure')]
        if len(best) == 1:
            return best[0]
        pref = sorted(cands, key=lambda f: -len(os.path.commonprefix([f.name, cur])))
        if len(pref) > 1 and len(os.path.commonprefix([pref[0].name, cur])) == len(os.path.commonprefix([pref[1].name, cur])):
            raise Inconclusive('ambiguous closure body for ' + ty)
        return pref[0]

    def fns_named(self, meth):
        return list(self.by_method.get(meth, []))

    def fn_by_name(self, name, nparams=None):
        fl = self.fns.get(name) or [f for n, l in self.fns.items() if (n.endswith('::' + name) or n == name) and 'verif' not in n for f in l]
        if nparams is not None:
            fl = [f for f in fl if len(f.params) == nparams]
        if len(fl) != 1:
            raise Inconclusive('function %s: %d bodies' % (name, len(fl)))
        return fl[0]

    def blocks_calling(self, f, callee_re, in_cycle=False):
        """blocks of f whose terminator is a call to something matching callee_re (in_cycle: only blocks lying on a CFG cycle,
        i.e. inside a loop -- a loop head is recognised by its call, not by its block number)"""
        if in_cycle:
            def cyc(bb):
                seen, todo = set(), list(mir.successors(f, bb))
                while todo:
                    x = todo.pop()
                    if x == bb:
                        return True
                    if x in seen or x == 'EXIT' or x not in f.blocks:
                        continue
                    seen.add(x)
                    try:
                        todo.extend(mir.successors(f, x))
                    except MirSyntax:
                        pass
                return False
            return [b for b in self.blocks_calling(f, callee_re) if cyc(b)]
        out = []
        pat = re.compile(callee_re)
        for bb, (stmts, term) in f.blocks.items():
            try:
                t = mir.parse_term(term)
            except MirSyntax:
                continue
            if t[0] == 'call' and pat.search(t[2]):
                out.append(bb)
        return sorted(out, key=lambda b: int(b[2:]))

    def local_ref(self, fr, debug_name):
        loc = fr.fn.debug.get(debug_name)
        if loc is None or not re.fullmatch(r'_\d+', loc):
            raise Inconclusive('no simple local for debug name %s in %s (%r)' % (debug_name, fr.fn.name, loc))
        return Ref((fr.id, loc))

    # ---------------------------------------------------------- memory
    def alloc(self, st, val, tag='heap'):
        addr = (tag, next(self.static_counter))
        st.mem[addr] = val
        return Ref(addr)

    def load(self, st, ref):
        try:
            v = st.mem[ref.addr]
        except KeyError:
            raise Inconclusive('load from dead/uninitialised %r' % (ref,))
        for el in ref.path:
            v = self.project(v, el)
        return v

    def project(self, v, el):
        k = el[0]
        if k == 'f':
            if isinstance(v, Agg):
                try:
                    return v.f[el[1]]
                except IndexError:
                    raise Inconclusive('field %d of %r' % (el[1], v))
            if isinstance(v, (FE, GE)) and self.fe_field is not None:
                r = self.fe_field(v, el[1])
                if r is not None:
                    return r
            raise Inconclusive('field projection on %r' % (v,))
        if k == 'v':
            if isinstance(v, Enum):
                if el[1] not in v.payload:
                    raise Inconclusive('variant %s absent in %r' % (el[1], v))
                return Agg('variant', v.payload[el[1]])
            raise Inconclusive('downcast on %r' % (v,))
        if k == 'i':
            i = el[1]
            if isinstance(v, LazySeq):
                return v.get(i if isinstance(i, BV) else BV(64, False, i))
            if not isinstance(v, Agg):
                raise Inconclusive('index on %r' % (v,))
            if isinstance(i, BV):
                if i.concrete:
                    i = i.v
                else:
                    n = len(v.f)
                    if n == 0:
                        raise Inconclusive('symbolic index into empty sequence')
                    out = v.f[n - 1]
                    for j in range(n - 2, -1, -1):
                        out = merge(i.v == j, v.f[j], out)
                    return out
            if i >= len(v.f):
                raise Inconclusive('index %d out of range %d (bounds assert should have caught it)' % (i, len(v.f)))
            return v.f[i]
        raise Inconclusive('projection %r' % (el,))

    def update(self, v, path, new):
        if not path:
            return new
        el, rest = path[0], path[1:]
        k = el[0]
        if k == 'f':
            if not isinstance(v, Agg):
                raise Inconclusive('field store into %r' % (v,))
            f = list(v.f)
            f[el[1]] = self.update(f[el[1]], rest, new)
            return Agg(v.ty, f)
        if k == 'v':
            if not isinstance(v, Enum):
                raise Inconclusive('variant store into %r' % (v,))
            pay = dict(v.payload)
            inner = self.update(Agg('variant', pay.get(el[1], ())), rest, new)
            pay[el[1]] = inner.f
            return Enum(v.ty, v.disc, pay)
        if k == 'i':
            i = el[1]
            if not isinstance(v, Agg):
                raise Inconclusive('index store into %r' % (v,))
            f = list(v.f)
            if isinstance(i, BV):
                if i.concrete:
                    i = i.v
                else:
                    for j in range(len(f)):
                        f[j] = merge(i.v == j, self.update(f[j], rest, new), f[j])
                    return Agg(v.ty, f)
            f[i] = self.update(f[i], rest, new)
            return Agg(v.ty, f)
        raise Inconclusive('store projection %r' % (el,))

    def store(self, st, ref, val):
        if ref.addr not in st.mem and ref.path:
            raise Inconclusive('store into dead %r' % (ref,))
        st.mem[ref.addr] = self.update(st.mem.get(ref.addr), ref.path, val)

    # ---------------------------------------------------------- places / operands
    def place_ref(self, st, fr, p):
        k = p[0]
        if k == 'local':
            return Ref((fr.id, p[1]))
        if k == 'deref':
            r = self.load(st, self.place_ref(st, fr, p[1]))
            if not isinstance(r, Ref):
                raise Inconclusive('deref of non-reference %r in %s' % (r, fr.fn.name))
            return r
        if k == 'field':
            return self.place_ref(st, fr, p[1]).ext(('f', p[2]))
        if k == 'downcast':
            return self.place_ref(st, fr, p[1]).ext(('v', p[2]))
        if k == 'index' or k == 'cindex':
            base = self.place_ref(st, fr, p[1])
            if k == 'index':
                i = self.load(st, Ref((fr.id, p[2])))
            else:
                if p[3]:
                    n = self.seq_len(st, base)
                    i = BV(64, False, n - p[2])
                else:
                    i = BV(64, False, p[2])
            if base.length is not None:
                start = base.start
                i = self.bv_add(start, i) if not (isinstance(start, BV) and start.concrete and start.v == 0) else i
                return Ref(base.addr, base.path + (('i', i),))
            return base.ext(('i', i))
        if k == 'subslice':
            base = self.place_ref(st, fr, p[1])
            n = self.seq_len(st, base)
            a = p[2]
            b = (n - p[3] if p[4] else p[3]) if p[3] is not None else n
            s0 = base.start.v if base.length is not None else 0
            return Ref(base.addr, base.path, BV(64, False, s0 + a), BV(64, False, b - a))
        raise Inconclusive('place %r' % (p,))

    def seq_len(self, st, ref):
        if ref.length is not None:
            if isinstance(ref.length, BV) and ref.length.concrete:
                return ref.length.v
            raise Inconclusive('symbolic slice length')
        v = self.load(st, ref)
        if isinstance(v, Agg):
            return len(v.f)
        if isinstance(v, LazySeq):
            return v.n
        raise Inconclusive('length of %r' % (v,))

    def bv_add(self, a, b):
        if a.concrete and b.concrete:
            return BV(a.w, a.s, a.v + b.v)
        return BV(a.w, a.s, a.z() + b.z())

    def operand(self, st, fr, o):
        k = o[0]
        if k == 'copy' or k == 'move':
            return self.load(st, self.place_ref(st, fr, o[1]))
        if k == 'const':
            return self.const(st, fr, o[1])
        raise Inconclusive('operand %r' % (o,))

    def const(self, st, fr, c):
        m = mir._INT.match(c)
        if m:
            w, s = INT_TYPES[m.group(2)]
            return BV(w, s, int(m.group(1)))
        if c == 'true':
            return True
        if c == 'false':
            return False
        if c == '()':
            return UNIT
        m = re.fullmatch(r'(u8|u16|u32|u64|u128|usize|i8|i16|i32|i64|i128|isize)::(MIN|MAX)', c)
        if m:
            w, s = INT_TYPES[m.group(1)]
            if m.group(2) == 'MAX':
                return BV(w, s, (1 << (w - 1)) - 1 if s else (1 << w) - 1)
            return BV(w, s, (1 << (w - 1)) if s else 0)
        if c.startswith('ZeroSized: {closure@'):
            return Agg(c[len('ZeroSized: '):], ())
        if c.startswith('"'):
            return Str(c[1:-1])
        if c.startswith('b"'):
            return Str(c)
        if re.fullmatch(r'-?[\d.]+(e-?\d+)?f(32|64)', c):
            return Opaque(('float', c))
        mp = re.search(r'::(promoted\[\d+\])$', c)
        if mp and fr is not None:
            c2 = fr.fn.name + '::' + mp.group(1)
            if c2 not in self.consts:
                raise Inconclusive('promoted constant not found: ' + c2)
        else:
            c2 = self.subst_ty(c, fr.subst if fr else {})
        v = self.named_const(st, c2)
        if v is not None:
            return v
        if c.startswith("'"):
            return BV(32, False, ord(c[1]))
        # unit struct / fn item / ZST
        return Opaque(('const', c2))

    def named_const(self, st, name):
        if name not in self.consts:
            name = norm_ty(name)
        key = name
        if key in self.const_cache:
            f, val = self.const_cache[key]
        else:
            f = self.find_const(name)
            if f is None:
                self.const_cache[key] = (None, None)
                return None
            # hook: leaf domains may want to reinterpret constants
            cst = State()
            cfr = Frame(f, {})
            self.run_fn_body(cst, cfr)
            val = cst.mem.get((cfr.id, '_0'))
            # keep memory of the const evaluation alive under static addresses
            self.const_cache[key] = (f, (val, cst.mem))
            f, val = self.const_cache[key]
        if f is None:
            return None
        v, mem = val
        for a, x in mem.items():
            if a not in st.mem:
                st.mem[a] = x
        self.encoded[('const ' + f.name)] = f.text_hash
        return v

    def find_const(self, name):
        if name in self.consts:
            return self.consts[name]
        segs = name.split('::')
        best = None
        for cn, f in self.consts.items():
            cs = cn.split('::')
            # suffix match on path segments
            n = min(len(cs), len(segs))
            k = 0
            while k < n and (cs[-1 - k] == segs[-1 - k] or cs[-1 - k].startswith('<impl at')):
                k += 1
            if k == len(cs) or (k >= 1 and k == len(segs)):
                if best is None or k > best[0]:
                    best = (k, f)
                elif k == best[0] and f is not best[1]:
                    best = (k, None)
        if best and best[1] is not None:
            return best[1]
        if best and best[1] is None:
            raise Inconclusive('ambiguous constant ' + name)
        return None

    # ---------------------------------------------------------- types / generics
    def subst_ty(self, t, subst):
        for k in sorted(subst or {}, key=len, reverse=True):
            v = subst[k]
            if re.match(r'^\w+$', k):
                t = re.sub(r'(?<![\w:])' + re.escape(k) + r'(?![\w])', v, t)
            else:
                t = t.replace(k, v)
        # resolve known associated types (innermost first, repeat for nesting)
        if '<' in t and ' as ' in t:
            for _ in range(3):
                t0 = t
                for k, v in self.assoc_types.items():
                    t = t.replace(k, v)
                for k, v in DEFAULT_ASSOC.items():
                    t = t.replace(k, v)
                if t == t0:
                    break
        return t

    def value_type(self, st, v):
        if isinstance(v, Ref):
            try:
                return self.value_type(st, self.load(st, v))
            except Inconclusive:
                return None
        if isinstance(v, (FE, GE)):
            return v.ty
        if isinstance(v, Agg) and re.match(r'^[\w:]+$', v.ty or ''):
            return v.ty
        return None

    def bind_generics(self, st, f, args, callee_txt):
        """infer the callee's generic parameters from the dynamic types of the arguments"""
        subst = {}
        hint = self.generics_hint.get(f.name.rsplit('::', 1)[-1]) or self.generics_hint.get(f.name)
        if hint:
            subst.update(hint)
        for (pn, pt), a in zip(f.params, args):
            t = pt
            while t.startswith('&'):
                t = re.sub(r'^&(mut )?', '', t)
            if re.fullmatch(r'[A-Z]\w*', t) and t not in subst and not self.is_known_type(t):
                vt = self.value_type(st, a)
                if vt:
                    subst[t] = vt
        # explicit turbofish on a free generic function with one parameter
        return subst

    def is_known_type(self, t):
        return t in ('Self',) and False

    # ---------------------------------------------------------- arithmetic
    def binop(self, op, a, b):
        for h in self.binop_hooks:
            r = h(op, a, b)
            if r is not None:
                return r
        if isinstance(a, BV) and isinstance(b, BV):
            return self.bv_binop(op, a, b)
        if isinstance(a, (bool, z3.BoolRef)) and isinstance(b, (bool, z3.BoolRef)):
            if op in ('BitAnd',):
                return b_and(a, b)
            if op == 'BitOr':
                return b_or(a, b)
            if op == 'BitXor' or op == 'Ne':
                if isinstance(a, bool) and isinstance(b, bool):
                    return a != b
                return z3.Xor(mk_bool(a), mk_bool(b))
            if op == 'Eq':
                if isinstance(a, bool) and isinstance(b, bool):
                    return a == b
                return mk_bool(a) == mk_bool(b)
        if isinstance(a, Opaque) or isinstance(b, Opaque):
            return Opaque(('binop', op))
        raise Inconclusive('binop %s on %r, %r' % (op, a, b))

    def bv_binop(self, op, a, b):
        w, s = a.w, a.s
        conc = a.concrete and b.concrete
        if op in ('Shl', 'Shr', 'ShlUnchecked', 'ShrUnchecked'):
            if conc:
                sh = b.v % w
                if op.startswith('Shl'):
                    return BV(w, s, a.v << sh)
                return BV(w, s, (a.sval() >> sh) if s else (a.v >> sh))
            bz = b.z()
            if b.w < w:
                bz = z3.ZeroExt(w - b.w, bz)
            elif b.w > w:
                bz = z3.Extract(w - 1, 0, bz)
            bz = bz & (w - 1)
            az = a.z()
            if op.startswith('Shl'):
                return BV(w, s, az << bz)
            return BV(w, s, (az >> bz) if s else z3.LShR(az, bz))
        if a.w != b.w:
            raise Inconclusive('width mismatch in %s: %r %r' % (op, a, b))
        if conc:
            x, y = (a.sval(), b.sval()) if s else (a.v, b.v)
            if op in ('Add', 'AddUnchecked'):
                return BV(w, s, x + y)
            if op in ('Sub', 'SubUnchecked'):
                return BV(w, s, x - y)
            if op in ('Mul', 'MulUnchecked'):
                return BV(w, s, x * y)
            if op == 'Div':
                if y == 0:
                    raise Inconclusive('division by zero')
                q = abs(x) // abs(y)
                return BV(w, s, q if (x >= 0) == (y >= 0) else -q)
            if op == 'Rem':
                if y == 0:
                    raise Inconclusive('rem by zero')
                r = abs(x) % abs(y)
                return BV(w, s, r if x >= 0 else -r)
            if op == 'BitAnd':
                return BV(w, s, a.v & b.v)
            if op == 'BitOr':
                return BV(w, s, a.v | b.v)
            if op == 'BitXor':
                return BV(w, s, a.v ^ b.v)
            if op == 'Eq':
                return x == y
            if op == 'Ne':
                return x != y
            if op == 'Lt':
                return x < y
            if op == 'Le':
                return x <= y
            if op == 'Gt':
                return x > y
            if op == 'Ge':
                return x >= y
            if op in ('AddWithOverflow', 'SubWithOverflow', 'MulWithOverflow'):
                r = x + y if op[0] == 'A' else (x - y if op[0] == 'S' else x * y)
                lo, hi = (-(1 << (w - 1)), (1 << (w - 1)) - 1) if s else (0, (1 << w) - 1)
                return Agg('(tuple)', (BV(w, s, r), not (lo <= r <= hi)))
            if op == 'Cmp':
                return Enum('Ordering', (-1 if x < y else (1 if x > y else 0)), {'Less': (), 'Equal': (), 'Greater': ()})
            raise Inconclusive('binop ' + op)
        az, bz = a.z(), b.z()
        if op in ('Add', 'AddUnchecked'):
            return BV(w, s, az + bz)
        if op in ('Sub', 'SubUnchecked'):
            return BV(w, s, az - bz)
        if op in ('Mul', 'MulUnchecked'):
            return BV(w, s, az * bz)
        if op == 'Div':
            return BV(w, s, (az / bz) if s else z3.UDiv(az, bz))
        if op == 'Rem':
            return BV(w, s, z3.SRem(az, bz) if s else z3.URem(az, bz))
        if op == 'BitAnd':
            return BV(w, s, az & bz)
        if op == 'BitOr':
            return BV(w, s, az | bz)
        if op == 'BitXor':
            return BV(w, s, az ^ bz)
        if op == 'Eq':
            return az == bz
        if op == 'Ne':
            return az != bz
        if op == 'Lt':
            return (az < bz) if s else z3.ULT(az, bz)
        if op == 'Le':
            return (az <= bz) if s else z3.ULE(az, bz)
        if op == 'Gt':
            return (az > bz) if s else z3.UGT(az, bz)
        if op == 'Ge':
            return (az >= bz) if s else z3.UGE(az, bz)
        if op in ('AddWithOverflow', 'SubWithOverflow'):
            ext = (lambda t: z3.SignExt(1, t)) if s else (lambda t: z3.ZeroExt(1, t))
            wide = ext(az) + ext(bz) if op[0] == 'A' else ext(az) - ext(bz)
            res = z3.Extract(w - 1, 0, wide)
            ovf = wide != ext(res)
            return Agg('(tuple)', (BV(w, s, res), ovf))
        if op == 'MulWithOverflow':
            ext = (lambda t: z3.SignExt(w, t)) if s else (lambda t: z3.ZeroExt(w, t))
            wide = ext(az) * ext(bz)
            res = z3.Extract(w - 1, 0, wide)
            return Agg('(tuple)', (BV(w, s, res), wide != ext(res)))
        raise Inconclusive('binop ' + op)

    def unop(self, st, op, a):
        if op == 'Not':
            if isinstance(a, BV):
                return BV(a.w, a.s, ~a.v if a.concrete else ~a.v)
            return b_not(a)
        if op == 'Neg':
            if isinstance(a, BV):
                return BV(a.w, a.s, -a.sval() if a.concrete else -a.v)
            if isinstance(a, Opaque):
                return a
        if op == 'PtrMetadata':
            if isinstance(a, Ref):
                if a.length is not None:
                    return a.length if isinstance(a.length, BV) else BV(64, False, a.length)
                return BV(64, False, self.seq_len(st, a))
        raise Inconclusive('unop %s on %r' % (op, a))

    def cast(self, st, v, ty, kind):
        if kind in ('IntToInt',):
            w, s = INT_TYPES[ty]
            if isinstance(v, bool):
                return BV(w, s, int(v))
            if isinstance(v, z3.BoolRef):
                return BV(w, s, z3.If(v, z3.BitVecVal(1, w), z3.BitVecVal(0, w)))
            if isinstance(v, Enum):
                return BV(w, s, v.disc) if isinstance(v.disc, int) else BV(w, s, self._resize(v.disc, 64, True, w))
            if not isinstance(v, BV):
                raise Inconclusive('IntToInt on %r' % (v,))
            if v.concrete:
                return BV(w, s, v.sval() if v.s else v.v)
            return BV(w, s, self._resize(v.v, v.w, v.s, w))
        if kind.startswith('PointerCoercion(Unsize'):
            if isinstance(v, Ref) and v.length is None:
                tgt = ty
                if '[' in tgt and 'dyn' not in tgt:
                    n = self.seq_len(st, v)
                    return Ref(v.addr, v.path, BV(64, False, 0), BV(64, False, n))
            return v
        if kind in ('Transmute', 'PtrToPtr', 'FnPtrToPtr') or kind.startswith('PointerCoercion') or kind.startswith('Pointer'):
            return v
        if kind in ('IntToFloat', 'FloatToInt', 'FloatToFloat'):
            return Opaque(('float-cast', ty))
        raise Inconclusive('cast %s to %s on %r' % (kind, ty, v))

    def _resize(self, z, w0, s0, w1):
        if w1 == w0:
            return z
        if w1 < w0:
            return z3.Extract(w1 - 1, 0, z)
        return z3.SignExt(w1 - w0, z) if s0 else z3.ZeroExt(w1 - w0, z)

    # ---------------------------------------------------------- rvalues / statements
    def make_adt(self, ty, vals):
        base = re.sub(r'::<.*?>(?=::|$)', '', ty)
        # strip generic args robustly (nested <>): remove balanced <...> groups preceded by ::
        base = _strip_generics(ty)
        segs = base.split('::')
        if len(segs) >= 2 and segs[-2] in VARIANTS and VARIANTS[segs[-2]] and segs[-1] in VARIANTS[segs[-2]]:
            return Enum(segs[-2], VARIANTS[segs[-2]][segs[-1]], {segs[-1]: tuple(vals)})
        v = Agg(base, vals)
        for pat, h in self.adt_hooks:
            if pat.fullmatch(base):
                r = h(v)
                if r is not None:
                    return r
        return v

    def rvalue(self, st, fr, rv):
        k = rv[0]
        if k == 'use':
            return self.operand(st, fr, rv[1])
        if k == 'ref':
            return self.place_ref(st, fr, rv[2])
        if k == 'bin':
            return self.binop(rv[1], self.operand(st, fr, rv[2]), self.operand(st, fr, rv[3]))
        if k == 'un':
            return self.unop(st, rv[1], self.operand(st, fr, rv[2]))
        if k == 'disc':
            v = self.load(st, self.place_ref(st, fr, rv[1]))
            if isinstance(v, Enum):
                return BV(64, True, v.disc)
            raise Inconclusive('discriminant of %r' % (v,))
        if k == 'cast':
            return self.cast(st, self.operand(st, fr, rv[1]), self.subst_ty(rv[2], fr.subst), rv[3])
        if k == 'agg':
            vals = [self.operand(st, fr, o) for o in rv[3]]
            if rv[1] == 'array':
                return Agg('[array]', vals)
            if rv[1] == 'tuple':
                return Agg('(tuple)', vals) if vals else UNIT
            if rv[1] == 'closure':
                return Agg(rv[2], vals)
            return self.make_adt(self.subst_ty(rv[2], fr.subst), vals)
        if k == 'repeat':
            v = self.operand(st, fr, rv[1])
            n = rv[2]
            m = mir._INT.match(n.replace('const ', ''))
            if m:
                n = int(m.group(1))
            elif n.isdigit():
                n = int(n)
            else:
                c = self.const(st, fr, n.replace('const ', ''))
                if not (isinstance(c, BV) and c.concrete):
                    raise Inconclusive('repeat count ' + rv[2])
                n = c.v
            return Agg('[array]', [v] * n)
        if k == 'len':
            return BV(64, False, self.seq_len(st, self.place_ref(st, fr, rv[1])))
        raise Inconclusive('rvalue %r' % (rv,))

    def stmt(self, st, fr, s):
        ps = mir.parse_stmt(s)
        k = ps[0]
        if k == 'nop':
            return
        if k == 'assign':
            v = self.rvalue(st, fr, ps[2])
            self.store(st, self.place_ref(st, fr, ps[1]), v)
            return
        if k == 'setdisc':
            r = self.place_ref(st, fr, ps[1])
            v = self.load(st, r)
            if isinstance(v, Enum):
                self.store(st, r, Enum(v.ty, ps[2], v.payload))
                return
        if k == 'assume':
            return
        raise Inconclusive('statement ' + s)

    # ---------------------------------------------------------- obligations
    def oblige(self, st, kind, cond, msg, where):
        if cond is True:
            return
        self.obligations.append(Obligation(kind, st.pc, cond, msg, where))

    def feasible(self, st, extra=None):
        s = z3.Solver()
        s.set('timeout', self.solver_timeout_ms)
        for p in st.pc:
            s.add(mk_bool(p))
        if extra is not None:
            s.add(mk_bool(extra))
        r = s.check()
        return r != z3.unsat

    # ---------------------------------------------------------- control
    def run_fn_body(self, st, fr):
        self.run_region(st, fr, 'bb0', 'EXIT')

    def run_region(self, st, fr, bb, stop):
        f = fr.fn
        while True:
            if bb == stop:
                return
            if bb == 'EXIT':
                raise Inconclusive('returned before reaching join %s in %s' % (stop, f.name))
            n = fr.visits.get(bb, 0) + 1
            fr.visits[bb] = n
            if self.cuts:
                hnd = self.cuts.get((f.name, bb))
                if hnd is not None:
                    hnd(self, st, fr, n)
            if n > self.unroll_limit:
                # unwinding obligation: this point must be unreachable
                self.oblige(st, 'unwind', False, 'loop bound %d exceeded' % self.unroll_limit, (f.name, bb))
                raise PathDead()
            try:
                stmts, term = f.blocks[bb]
            except KeyError:
                raise Inconclusive('no block %s in %s' % (bb, f.name))
            for s in stmts:
                self.stmt(st, fr, s)
            t = mir.parse_term(term)
            k = t[0]
            if k == 'goto':
                bb = t[1]
            elif k == 'return':
                bb = 'EXIT'
            elif k == 'call':
                args = [self.operand(st, fr, a) for a in t[3]]
                callee = self.subst_ty(t[2], fr.subst)
                if t[4] is None:
                    self.diverge(st, fr, callee, args, bb)
                    raise PathDead()
                r = self.call(st, callee, args, caller=fr)
                self.store(st, self.place_ref(st, fr, t[1]), r)
                bb = t[4]
            elif k == 'assert':
                c = self.operand(st, fr, t[1])
                if t[2]:
                    c = b_not(c)
                c = simp_bool(c)
                if c is False:
                    self.oblige(st, 'panic', False, t[3], (f.name, bb))
                    raise PathDead()
                if c is not True:
                    self.oblige(st, 'panic', c, t[3], (f.name, bb))
                    st.pc.append(c)
                bb = t[4]
            elif k == 'drop':
                bb = t[2]
            elif k == 'switch':
                v = self.operand(st, fr, t[1])
                bb = self.switch(st, fr, bb, v, t[2], t[3], stop)
            elif k == 'dead':
                if t[1] == 'unreachable':
                    self.oblige(st, 'unreachable', False, 'unreachable executed', (f.name, bb))
                raise PathDead()
            else:
                raise Inconclusive('terminator ' + term)

    def diverge(self, st, fr, callee, args, bb):
        msg = ''
        for a in args:
            if isinstance(a, Str):
                msg = a.s
        self.oblige(st, 'panic', False, 'diverging call %s %s' % (callee, msg), (fr.fn.name, bb))

    def switch(self, st, fr, bb, v, arms, other, stop):
        """returns next block (concrete case) or, after a fork+merge, the join block"""
        if isinstance(v, bool):
            v = BV(8, False, int(v))
        if isinstance(v, z3.BoolRef):
            sv = simp_bool(v)
            if isinstance(sv, bool):
                v = BV(8, False, int(sv))
        if isinstance(v, BV) and not v.concrete:
            zs = z3.simplify(v.v)
            if z3.is_bv_value(zs):
                v = BV(v.w, v.s, zs.as_long())
        if isinstance(v, BV) and v.concrete:
            x = v.v
            for k, b in arms:
                if (k & ((1 << v.w) - 1)) == x:
                    return b
            if other is None:
                raise Inconclusive('switch without otherwise')
            return other
        # symbolic
        conds = []
        if isinstance(v, z3.BoolRef):
            for k, b in arms:
                conds.append(((v if k else z3.Not(v)), b))
            if other:
                have = set(k for k, _ in arms)
                rest = [x for x in (0, 1) if x not in have]
                if rest:
                    conds.append(((v if rest[0] else z3.Not(v)), other))
        elif isinstance(v, BV):
            for k, b in arms:
                conds.append((v.v == z3.BitVecVal(k, v.w), b))
            if other:
                conds.append((z3.And(*[v.v != z3.BitVecVal(k, v.w) for k, _ in arms]), other))
        else:
            raise Inconclusive('switch on %r' % (v,))
        ip = mir.compute_ipdom(fr.fn)
        J = ip.get(bb)
        if J is None:
            raise Inconclusive('no post-dominator for %s in %s' % (bb, fr.fn.name))
        self.nforks += 1
        results = []
        base_visits = dict(fr.visits)
        for c, tgt in conds:
            c = simp_bool(c)
            if c is False:
                continue
            if self.prune and not self.feasible(st, c):
                continue
            s2 = st.clone()
            if c is not True:
                s2.pc.append(c)
            try:
                self.run_region(s2, fr, tgt, J)
                results.append((c, s2))
            except PathDead:
                pass
        if not results:
            raise PathDead()
        if len(results) == 1:
            c, s2 = results[0]
            st.mem = s2.mem
            st.pc = s2.pc
        else:
            self.nmerges += 1
            st.mem = self.merge_mems([(c, s.mem) for c, s in results])
            alive = b_or(*[c for c, _ in results])
            # path-condition facts learned inside branches are dropped except the common prefix
            # and the disjunction of the surviving branch conditions
            common = len(st.pc)
            extra = [alive] if (alive is not True and len(results) != len(conds)) else []
            # facts assumed inside a branch (after its panic obligations were recorded) are dropped at the join:
            # fewer assumptions can only make later obligations harder to discharge, never easier
            st.pc = st.pc[:common] + extra
        return J

    def merge_mems(self, lst):
        out = dict(lst[-1][1])
        for c, m in reversed(lst[:-1]):
            new = {}
            for a in set(out) | set(m):
                x, y = m.get(a), out.get(a)
                if x is y:
                    new[a] = x
                    continue
                try:
                    new[a] = merge(mk_bool(c), x, y)
                except MergeFail as e:
                    # a temporary that is dead after the join may differ structurally; poison it
                    new[a] = Poison(str(e))
            out = new
        return out

    # ---------------------------------------------------------- calls
    def call(self, st, callee, args, caller=None, subst=None):
        self.ncalls += 1
        callee = norm_ty(callee)
        for pat, h in self.leaf_ops:
            m = pat.fullmatch(callee)
            if m:
                r = h(self, st, m, args)
                if r is not NotImplemented:
                    self.leaf_used[pat.pattern] = self.leaf_used.get(pat.pattern, 0) + 1
                    return r
        f, sub = self.resolve(st, callee, args)
        if f is None:
            raise Inconclusive('no MIR body and no leaf model for `%s` (args %s)' % (callee, [type(a).__name__ for a in args]))
        if subst:
            sub.update(subst)
        return self.call_fn(st, f, args, sub)

    def call_fn(self, st, f, args, subst):
        self.encoded[f.name + '(' + ','.join(t for _, t in f.params) + ')'] = f.text_hash
        if len(args) != len(f.params):
            raise Inconclusive('arity mismatch calling %s' % f.name)
        fr = Frame(f, subst)
        for (pn, pt), a in zip(f.params, args):
            st.mem[(fr.id, pn)] = a
        if self.trace:
            self.trace(f, args)
        self.fn_stack.append(f)
        try:
            self.run_region(st, fr, 'bb0', 'EXIT')
        finally:
            self.fn_stack.pop()
        ret = st.mem.get((fr.id, '_0'), UNIT)
        for a in [a for a in st.mem if a[0] == fr.id]:
            del st.mem[a]
        return ret

    def resolve(self, st, callee, args):
        """find the MIR body for a callee path. returns (Fn, subst) or (None, None)"""
        meth = _strip_generics(callee).rsplit('::', 1)[-1]
        if callee.startswith('{closure@') or '{closure@' in callee.split(' as ')[0]:
            pass
        cands = self.by_method.get(meth, [])
        m = re.fullmatch(r'<(.+) as (.+?)>::(\w+)(::<.*>)?', callee)
        selfty = None
        trait = None
        if m:
            selfty, trait = m.group(1), _strip_generics(m.group(2)).rsplit('::', 1)[-1]
        else:
            m2 = re.fullmatch(r'(.+)::(\w+)(::<.*>)?', callee)
            if m2 and ('<impl' not in callee):
                selfty = m2.group(1)
        cands = [f for f in cands if len(f.params) == len(args)]
        if not cands:
            return None, None
        argtys = [self.value_type(st, a) for a in args]

        def score(f):
            sc = 0
            if '<impl at' in f.name:
                # self type from first param or from return
                if selfty:
                    st_ = _strip_generics(selfty)
                    ok = False
                    for pt in [p[1] for p in f.params[:1]] + [f.ret]:
                        core = _strip_generics(re.sub(r'^(&(mut )?)+', '', pt))
                        if _ty_match(core, st_):
                            ok = True
                            break
                    if ok:
                        sc += 2
                    else:
                        # Self is not mentioned in the signature at all (e.g. methods of the unit struct Bls12):
                        # accept weakly iff this is the only body with that method name and arity
                        modp = '::'.join(st_.split('::')[:-1])
                        if modp and f.name.startswith(modp + '::'):
                            sc += 1
                        elif len(cands) != 1:
                            return -1
            else:
                # free function or trait default method
                cs_ = _strip_generics(callee)
                if f.name == cs_ or f.name == callee:
                    sc += 5
                elif not m and (f.name.endswith('::' + cs_) or cs_.endswith('::' + f.name)) and 'verif' not in f.name:
                    sc += 4       # the MIR printer qualifies names only as far as needed for uniqueness
                elif trait and f.name == trait + '::' + meth:
                    sc += 1
                elif selfty and f.name == _strip_generics(selfty).rsplit('::', 1)[-1] + '::' + meth:
                    sc += 1
                elif '::' not in f.name and f.name == meth and not m:
                    sc += 3
                else:
                    return -1
            for (pn, pt), at, av in zip(f.params, argtys, args):
                if isinstance(av, BV):
                    if pt in INT_TYPES:
                        if INT_TYPES[pt] == (av.w, av.s):
                            sc += 1
                        else:
                            return -1
                    elif re.match(r'^[\w:]+$', pt) and '::' in pt:
                        return -1
                    continue
                if at is None:
                    continue
                core = _strip_generics(re.sub(r'^(&(mut )?)+', '', pt))
                if re.fullmatch(r'[A-Z]\w*', core) or core == 'Self':
                    continue
                if _ty_match(core, _strip_generics(at)):
                    sc += 1
                elif re.match(r'^[\w:]+$', core) and '::' in core:
                    return -1
            return sc
        scored = [(score(f), f) for f in cands]
        scored = [(s, f) for s, f in scored if s >= 0]
        if not scored:
            return None, None
        scored.sort(key=lambda x: -x[0])
        if len(scored) > 1 and scored[0][0] == scored[1][0]:
            # tie-break: impl whose module path appears in the self type
            if selfty:
                mod = _strip_generics(selfty).split('::')
                pref = [f for s, f in scored if s == scored[0][0] and f.name.startswith('::'.join(mod[:-1]) + '::')]
                if len(pref) == 1:
                    f = pref[0]
                    return f, self._subst_for(st, f, args, selfty, callee)
            raise Inconclusive('ambiguous callee %s: %s' % (callee, [f.name for s, f in scored[:4]]))
        f = scored[0][1]
        return f, self._subst_for(st, f, args, selfty, callee)

    def _subst_for(self, st, f, args, selfty, callee):
        sub = self.bind_generics(st, f, args, callee)
        if selfty and '<impl at' not in f.name:
            sub.setdefault('Self', selfty)
        # explicit turbofish for single-parameter generic free functions
        m = re.search(r'::<(.+)>$', callee)
        if m and '<impl at' not in f.name:
            gens = [g for g in _sig_generics(f) if g not in sub]
            targs = mir.split_top(m.group(1))
            if len(gens) == len(targs):
                for g, t in zip(gens, targs):
                    sub[g] = t
        return sub


class Poison:
    """result of merging structurally different temporaries; any use is inconclusive"""
    __slots__ = ('why',)

    def __init__(self, why):
        self.why = why

    def __repr__(self):
        return 'Poison(%s)' % self.why


def _strip_generics(t):
    out, depth, i = [], 0, 0
    while i < len(t):
        if t.startswith('::<', i) and depth == 0:
            j = mir.match_close(t, i + 2)
            i = j + 1
            continue
        out.append(t[i])
        i += 1
    return ''.join(out)


def _ty_match(a, b):
    """path types equal up to leading module segments"""
    if a == b:
        return True
    sa, sb = a.split('::'), b.split('::')
    n = min(len(sa), len(sb))
    return n >= 1 and sa[-n:] == sb[-n:] and re.match(r'^[\w:<>\[\]; ,&]+$', a) is not None


def _ty_in(t, hay):
    last = t.split('::')[-1]
    return re.search(r'(?<!\w)' + re.escape(last) + r'(?!\w)', hay) is not None


def _sig_generics(f):
    seen = []
    for _, pt in f.params + [('', f.ret)]:
        for g in re.findall(r'(?<![\w:])(?<! as )([A-Z][A-Za-z]*)(?![\w:<])', pt):
            if g not in seen and g not in ('Self', 'Vec', 'Option', 'Result', 'String', 'Box'):
                seen.append(g)
    return seen
