"""Independent big-integer reference arithmetic for BLS12-381 (textbook formulas, exact integers).

Used for (a) ground facts about hard-coded constants, (b) validating the symbolic executor
against native runs, (c) replaying counterexamples.  Literals are written here independently of
/repo (sources: the BLS12-381 specification / RFC 9380)."""

Q = 0x1a0111ea397fe69a4b1ba7b6434bacd764774b84f38512bf6730d2a0f6b0f6241eabfffeb153ffffb9feffffffffaaab
R_ORDER = 0x73eda753299d7d483339d80809a1d80553bda402fffe5bfeffffffff00000001
BLS_X = 0xd201000000010000  # |x|, x is negative
MONT_R = pow(2, 384, Q)
MONT_R_FR = pow(2, 256, R_ORDER)
assert Q == (BLS_X + 1) ** 2 * ((BLS_X ** 4 - BLS_X ** 2 + 1)) // 3 - BLS_X  # q = (x-1)^2 (x^4-x^2+1)/3 + x, x<0
assert R_ORDER == BLS_X ** 4 - BLS_X ** 2 + 1


def from_mont(limbs_int, mod=Q, bits=384):
    return limbs_int * pow(pow(2, bits, mod), -1, mod) % mod


# ---------------- Fq2 = Fq[u]/(u^2+1): pairs (c0, c1)
def f2(a, b=0):
    return (a % Q, b % Q)


def f2_add(a, b):
    return ((a[0] + b[0]) % Q, (a[1] + b[1]) % Q)


def f2_sub(a, b):
    return ((a[0] - b[0]) % Q, (a[1] - b[1]) % Q)


def f2_neg(a):
    return (-a[0] % Q, -a[1] % Q)


def f2_mul(a, b):
    return ((a[0] * b[0] - a[1] * b[1]) % Q, (a[0] * b[1] + a[1] * b[0]) % Q)


def f2_sqr(a):
    return f2_mul(a, a)


def f2_inv(a):
    n = pow((a[0] * a[0] + a[1] * a[1]) % Q, -1, Q)
    return (a[0] * n % Q, -a[1] * n % Q)


def f2_pow(a, e):
    r = (1, 0)
    while e:
        if e & 1:
            r = f2_mul(r, a)
        a = f2_mul(a, a)
        e >>= 1
    return r


def f2_conj(a):
    return (a[0], -a[1] % Q)


F2_ZERO, F2_ONE = (0, 0), (1, 0)
XI = (1, 1)  # the cubic/quadratic non-residue u+1


def f2_is_square(a):
    if a == F2_ZERO:
        return True
    return f2_pow(a, (Q * Q - 1) // 2) == F2_ONE


def fq_sqrt(a):
    a %= Q
    r = pow(a, (Q + 1) // 4, Q)
    return r if r * r % Q == a else None


def f2_sqrt(a):
    """some square root in Fq2 or None (complex method)"""
    if a == F2_ZERO:
        return F2_ZERO
    if not f2_is_square(a):
        return None
    a0, a1 = a
    if a1 == 0:
        s = fq_sqrt(a0)
        if s is not None:
            return (s, 0)
        s = fq_sqrt(-a0 % Q)
        return (0, s)
    n = fq_sqrt((a0 * a0 + a1 * a1) % Q)
    inv2 = pow(2, -1, Q)
    t = (a0 + n) * inv2 % Q
    x = fq_sqrt(t)
    if x is None:
        t = (a0 - n) * inv2 % Q
        x = fq_sqrt(t)
    y = a1 * pow(2 * x, -1, Q) % Q
    assert f2_mul((x, y), (x, y)) == a
    return (x, y)


# ---------------- Fq6 = Fq2[v]/(v^3 - xi): triples; Fq12 = Fq6[w]/(w^2 - v): pairs
def f6_add(a, b):
    return tuple(f2_add(x, y) for x, y in zip(a, b))


def f6_sub(a, b):
    return tuple(f2_sub(x, y) for x, y in zip(a, b))


def f6_neg(a):
    return tuple(f2_neg(x) for x in a)


def f6_mul(a, b):
    c = [F2_ZERO] * 5
    for i in range(3):
        for j in range(3):
            c[i + j] = f2_add(c[i + j], f2_mul(a[i], b[j]))
    return (f2_add(c[0], f2_mul(XI, c[3])), f2_add(c[1], f2_mul(XI, c[4])), c[2])


F6_ZERO = (F2_ZERO, F2_ZERO, F2_ZERO)
F6_ONE = (F2_ONE, F2_ZERO, F2_ZERO)
F6_V = (F2_ZERO, F2_ONE, F2_ZERO)


def f6_mul_v(a):
    return (f2_mul(XI, a[2]), a[0], a[1])


def f12_add(a, b):
    return (f6_add(a[0], b[0]), f6_add(a[1], b[1]))


def f12_mul(a, b):
    return (f6_add(f6_mul(a[0], b[0]), f6_mul_v(f6_mul(a[1], b[1]))), f6_add(f6_mul(a[0], b[1]), f6_mul(a[1], b[0])))


F12_ONE = (F6_ONE, F6_ZERO)
F12_ZERO = (F6_ZERO, F6_ZERO)


def f12_pow(a, e):
    r = F12_ONE
    while e:
        if e & 1:
            r = f12_mul(r, a)
        a = f12_mul(a, a)
        e >>= 1
    return r


def f6_pow(a, e):
    r = F6_ONE
    while e:
        if e & 1:
            r = f6_mul(r, a)
        a = f6_mul(a, a)
        e >>= 1
    return r


# ---------------- generic short-Weierstrass affine group law over a field given by ops
class Curve:
    """y^2 = x^3 + a x + b over the field described by (add, sub, mul, inv, zero, one)"""

    def __init__(self, a, b, ops):
        self.a, self.b = a, b
        self.add, self.sub, self.mul, self.inv, self.zero, self.one = ops

    def on_curve(self, P):
        if P is None:
            return True
        x, y = P
        m = self.mul
        return m(y, y) == self.add(self.add(m(m(x, x), x), m(self.a, x)), self.b)

    def neg(self, P):
        if P is None:
            return None
        return (P[0], self.sub(self.zero, P[1]))

    def padd(self, P, Q_):
        if P is None:
            return Q_
        if Q_ is None:
            return P
        m, s, a = self.mul, self.sub, self.add
        x1, y1 = P
        x2, y2 = Q_
        if x1 == x2:
            if y1 == y2 and y1 != self.zero:
                t = m(x1, x1)
                num = a(a(a(t, t), t), self.a)
                lam = m(num, self.inv(a(y1, y1)))
            else:
                return None
        else:
            lam = m(s(y2, y1), self.inv(s(x2, x1)))
        x3 = s(s(m(lam, lam), x1), x2)
        y3 = s(m(lam, s(x1, x3)), y1)
        return (x3, y3)

    def smul(self, k, P):
        R = None
        neg = k < 0
        k = abs(k)
        A = P
        while k:
            if k & 1:
                R = self.padd(R, A)
            A = self.padd(A, A)
            k >>= 1
        return self.neg(R) if neg else R

    def from_jac(self, X, Y, Z):
        if Z == self.zero:
            return None
        zi = self.inv(Z)
        zi2 = self.mul(zi, zi)
        return (self.mul(X, zi2), self.mul(Y, self.mul(zi2, zi)))


FQ_OPS = (lambda a, b: (a + b) % Q, lambda a, b: (a - b) % Q, lambda a, b: a * b % Q, lambda a: pow(a, -1, Q), 0, 1)
FQ2_OPS = (f2_add, f2_sub, f2_mul, f2_inv, F2_ZERO, F2_ONE)
E1 = Curve(0, 4, FQ_OPS)
E2 = Curve(F2_ZERO, (4, 4), FQ2_OPS)

# RFC 9380 section 8.8: isogenous curves
E1P_A = 0x144698a3b8e9433d693a02c96d4982b0ea985383ee66a8d8e8981aefd881ac98936f8da0e0f97f5cf428082d584c1d
E1P_B = 0x12e2908d11688030018b12e8753eee3b2016c1f0f24f4070a0b9c14fcef35ef55a23215a316ceaa5d1cc48e98e172be0
E1P = Curve(E1P_A, E1P_B, FQ_OPS)
E2P_A = (0, 240)
E2P_B = (1012, 1012)
E2P = Curve(E2P_A, E2P_B, FQ2_OPS)
SSWU_Z1 = 11
SSWU_Z2 = (-2 % Q, -1 % Q)
H_EFF_G1 = 0xd201000000010001
H_EFF_G2 = 0xbc69f08f2ee75b3584c6a0ea91b352888e2a8e9145ad7689986ff031508ffe1329c2f178731db956d82bf015d1212b02ec0ec69d7477c1ae954cbc06689f6a359894c0adebbf6b4e8020005aaa95551
H1 = 0x396c8c005555e1568c00aaab0000aaab
H2 = 0x5d543a95414e7f1091d50792876a202cd91de4547085abaa68a205b2e5a7ddfa628f1cb4d9e82ef21537e293a6691ae1616ec6e786f0c70cf1c38e31c7238e5
assert H1 * R_ORDER == Q + 1 - (-BLS_X + 1)      # #E(Fq) = q + 1 - t, t = x + 1
assert H_EFF_G2 == 3 * (BLS_X ** 2 - 1) * H2
assert H1 == (BLS_X + 1) ** 2 // 3


# ---------------- RFC 9380 6.6.2 simplified SWU (straightforward, affine) for the two isogenous curves
def sgn0_fq(a):
    return a % Q & 1


def sgn0_fq2(a):
    s0, z0 = a[0] & 1, a[0] == 0
    return s0 | (z0 & (a[1] & 1))


def sswu_fq(u, A=None, B=None, Z=SSWU_Z1):
    A = E1P_A if A is None else A
    B = E1P_B if B is None else B
    u %= Q
    tv1 = (Z * Z * pow(u, 4, Q) + Z * u * u) % Q
    if tv1 == 0:
        x1 = B * pow(Z * A, -1, Q) % Q
    else:
        x1 = (-B) * pow(A, -1, Q) % Q * (1 + pow(tv1, -1, Q)) % Q
    gx1 = (pow(x1, 3, Q) + A * x1 + B) % Q
    y1 = fq_sqrt(gx1)
    if y1 is not None:
        x, y = x1, y1
    else:
        x = Z * u * u % Q * x1 % Q
        y = fq_sqrt((pow(x, 3, Q) + A * x + B) % Q)
        assert y is not None
    if sgn0_fq(u) != sgn0_fq(y):
        y = -y % Q
    return (x, y)


def sswu_fq2(u, A=E2P_A, B=E2P_B, Z=SSWU_Z2):
    u2 = f2_sqr(u)
    zu2 = f2_mul(Z, u2)
    tv1 = f2_add(f2_sqr(zu2), zu2)
    if tv1 == F2_ZERO:
        x1 = f2_mul(B, f2_inv(f2_mul(Z, A)))
    else:
        x1 = f2_mul(f2_mul(f2_neg(B), f2_inv(A)), f2_add(F2_ONE, f2_inv(tv1)))

    def g(x):
        return f2_add(f2_add(f2_mul(f2_sqr(x), x), f2_mul(A, x)), B)
    y1 = f2_sqrt(g(x1))
    if y1 is not None:
        x, y = x1, y1
    else:
        x = f2_mul(zu2, x1)
        y = f2_sqrt(g(x))
        assert y is not None
    if sgn0_fq2(u) != sgn0_fq2(y):
        y = f2_neg(y)
    return (x, y)


# ---------------- group orders and their factorizations (independent literals; primality of the large factors is checked with
# sympy.isprime where used).  #E(Fq) = h1 * r,  #E'(Fq2) = h2 * r  (E' the sextic twist carrying G2)
H1_FACTORS = {3: 1, 11: 2, 10177: 2, 859267: 2, 52437899: 2}
H2_FACTORS = {13: 2, 23: 2, 2713: 1, 11953: 1, 262069: 1,
              402096035359507321594726366720466575392706800671181159425656785868777272553337714697862511267018014931937703598282857976535744623203249: 1}


def _prod(f):
    n = 1
    for p_, e_ in f.items():
        n *= p_ ** e_
    return n


assert _prod(H1_FACTORS) == H1 and _prod(H2_FACTORS) == H2
