"""Front end: regenerate the MIR dump from /repo's current working tree (never cached across runs)."""
import os, subprocess, shutil, time, hashlib, tempfile
from . import mir

REPO = os.environ.get('VERIF_REPO', '/repo')


def scratch_root():
    d = os.environ.get('VERIF_SCRATCH') or '/var/tmp/verif-scratch'
    os.makedirs(d, exist_ok=True)
    return d


def copy_repo(dst):
    if os.path.exists(dst):
        shutil.rmtree(dst)
    subprocess.check_call(['rsync', '-a', '--exclude', 'target', '--exclude', '.git', REPO + '/', dst + '/'])


def dump_mir(workdir=None, features='verif', keep=False):
    """returns (mir_text, info). Builds in a throw-away copy of /repo's working tree."""
    t0 = time.time()
    own = workdir is None
    if own:
        workdir = tempfile.mkdtemp(prefix='mir-', dir=scratch_root())
    os.makedirs(workdir, exist_ok=True)
    src = os.path.join(workdir, 'repo')
    copy_repo(src)
    env = dict(os.environ, CARGO_NET_OFFLINE='true', CARGO_TARGET_DIR=os.path.join(workdir, 'target-mir'),
               RUSTFLAGS='')
    env.pop('RUSTUP_TOOLCHAIN', None)
    # shared target dir for dependencies across runs would be faster but checks must not depend on stale state
    cmd = ['cargo', '+nightly', 'rustc', '--offline', '--lib']
    cargo_toml = open(os.path.join(src, 'Cargo.toml')).read()
    if features and ('\n%s = ' % features) in cargo_toml:
        cmd += ['--features', features]
    cmd += ['--', '-Zunpretty=mir', '-C', 'debug-assertions=off', '-C', 'overflow-checks=on']
    p = subprocess.run(cmd, cwd=src, env=env, stdout=subprocess.PIPE, stderr=subprocess.PIPE, text=True)
    if p.returncode != 0 or not p.stdout.strip():
        if own and not keep:
            shutil.rmtree(workdir, ignore_errors=True)
        raise RuntimeError('MIR dump failed:\n' + p.stderr[-3000:])
    text = p.stdout
    info = {'cmd': ' '.join(cmd), 'seconds': round(time.time() - t0, 1), 'lines': text.count('\n'),
            'sha256': hashlib.sha256(text.encode()).hexdigest()}
    if own and not keep:
        shutil.rmtree(workdir, ignore_errors=True)
    return text, info


def load(path=None):
    if path:
        text = open(path).read()
        info = {'cmd': 'file ' + path, 'sha256': hashlib.sha256(text.encode()).hexdigest()}
    else:
        text, info = dump_mir()
    fns, consts = mir.parse_mir(text)
    info['functions'] = sum(len(v) for v in fns.values())
    info['consts'] = len(consts)
    return fns, consts, info
