"""Front end: regenerate the MIR dump from /repo's current working tree (never cached across runs)."""
import os, subprocess, shutil, time, hashlib, tempfile
from . import mir

REPO = os.environ.get('VERIF_REPO', '/repo')


def scratch_root():
    d = os.environ.get('VERIF_SCRATCH') or '/var/tmp/verif-scratch'
    os.makedirs(d, exist_ok=True)
    return d


def copy_repo(dst):
    if os.path.exists(dst):
        shutil.rmtree(dst)
    subprocess.check_call(['rsync', '-a', '--exclude', 'target', '--exclude', '.git', REPO + '/', dst + '/'])


def dump_mir(workdir=None, features=None, keep=False):
    """returns (mir_text, info). Builds in a throw-away copy of /repo's working tree."""
    t0 = time.time()
    own = workdir is None
    if own:
        workdir = tempfile.mkdtemp(prefix='mir-', dir=scratch_root())
    os.makedirs(workdir, exist_ok=True)
    src = os.path.join(workdir, 'repo')
    copy_repo(src)
    env = dict(os.environ, CARGO_NET_OFFLINE='true', CARGO_TARGET_DIR=os.path.join(workdir, 'target-mir'),
               RUSTFLAGS='')
    env.pop('RUSTUP_TOOLCHAIN', None)
    # shared target dir for dependencies across runs would be faster but checks must not depend on stale state
    cmd = ['cargo', '+nightly', 'rustc', '--offline', '--lib']
    cargo_toml = open(os.path.join(src, 'Cargo.toml')).read()
    if features and ('\n%s = ' % features) in cargo_toml:
        cmd += ['--features', features]
    cmd += ['--', '-Zunpretty=mir', '-C', 'debug-assertions=off', '-C', 'overflow-checks=on']
    p = subprocess.run(cmd, cwd=src, env=env, stdout=subprocess.PIPE, stderr=subprocess.PIPE, text=True)
    if p.returncode != 0 or not p.stdout.strip():
        if own and not keep:
            shutil.rmtree(workdir, ignore_errors=True)
        raise RuntimeError('MIR dump failed:\n' + p.stderr[-3000:])
    text = p.stdout
    info = {'cmd': ' '.join(cmd), 'seconds': round(time.time() - t0, 1), 'lines': text.count('\n'),
            'sha256': hashlib.sha256(text.encode()).hexdigest()}
    if own and not keep:
        shutil.rmtree(workdir, ignore_errors=True)
    return text, info


def load(path=None):
    if path:
        text = open(path).read()
        info = {'cmd': 'file ' + path, 'sha256': hashlib.sha256(text.encode()).hexdigest()}
    else:
        text, info = dump_mir()
    fns, consts = mir.parse_mir(text)
    info['functions'] = sum(len(v) for v in fns.values())
    info['consts'] = len(consts)
    return fns, consts, info


# ---------------------------------------------------------------- shared scratch cache (dependencies only persist)
import fcntl, contextlib


@contextlib.contextmanager
def cache_lock(name):
    root = os.path.join(scratch_root(), 'cache')
    os.makedirs(root, exist_ok=True)
    fh = open(os.path.join(root, name + '.lock'), 'w')
    fcntl.flock(fh, fcntl.LOCK_EX)
    try:
        yield root
    finally:
        fcntl.flock(fh, fcntl.LOCK_UN)
        fh.close()


def sync_repo(dst):
    """make dst an exact copy of /repo's working tree (mtimes preserved so unchanged dependencies are not rebuilt)"""
    os.makedirs(dst, exist_ok=True)
    subprocess.check_call(['rsync', '-a', '--delete', '--exclude', 'target', '--exclude', '.git', REPO + '/', dst + '/'])


def build_native(profile='dev'):
    """builds /verif/replay against the current /repo tree; returns path of the binary"""
    here = os.path.dirname(os.path.dirname(os.path.abspath(__file__)))
    with cache_lock('native') as root:
        repo = os.path.join(root, 'native-repo')
        sync_repo(repo)
        crate = os.path.join(root, 'native-crate')
        os.makedirs(os.path.join(crate, 'src'), exist_ok=True)
        tmpl = open(os.path.join(here, 'replay', 'Cargo.toml.in')).read().replace('@REPO@', repo)
        _write_if_changed(os.path.join(crate, 'Cargo.toml'), tmpl)
        _write_if_changed(os.path.join(crate, 'src', 'main.rs'), open(os.path.join(here, 'replay', 'src', 'main.rs')).read())
        if not os.path.exists(os.path.join(crate, 'Cargo.lock')):
            shutil.copy(os.path.join(repo, 'Cargo.lock'), os.path.join(crate, 'Cargo.lock'))
        env = dict(os.environ, CARGO_NET_OFFLINE='true', CARGO_TARGET_DIR=os.path.join(root, 'target-native'))
        env.pop('RUSTUP_TOOLCHAIN', None)
        cmd = ['cargo', 'build', '--offline'] + (['--release'] if profile == 'release' else [])
        p = subprocess.run(cmd, cwd=crate, env=env, stdout=subprocess.PIPE, stderr=subprocess.PIPE, text=True)
        if p.returncode != 0:
            raise RuntimeError('native replay build failed:\n' + p.stderr[-3000:])
        binp = os.path.join(root, 'target-native', 'release' if profile == 'release' else 'debug', 'verif-replay')
        # private copy so that a concurrent rebuild cannot swap the binary under us
        out = tempfile.mkdtemp(prefix='native-', dir=scratch_root())
        dst = os.path.join(out, 'verif-replay-' + profile)
        shutil.copy(binp, dst)
        return dst


def _write_if_changed(path, text):
    if os.path.exists(path) and open(path).read() == text:
        return
    with open(path, 'w') as fh:
        fh.write(text)


class Native:
    """line-oriented conversation with the replay binary"""

    def __init__(self, profile='dev'):
        self.profile = profile
        self.bin = build_native(profile)

    def run(self, lines):
        p = subprocess.run([self.bin], input='\n'.join(lines) + '\n', stdout=subprocess.PIPE, stderr=subprocess.PIPE, text=True, timeout=600)
        out = p.stdout.strip().split('\n') if p.stdout.strip() else []
        if len(out) != len(lines):
            raise RuntimeError('native replay: %d answers for %d commands (rc=%s) %s' % (len(out), len(lines), p.returncode, p.stderr[-500:]))
        return out

    def close(self):
        shutil.rmtree(os.path.dirname(self.bin), ignore_errors=True)
