"""Obligation bookkeeping, solver discharge (z3 in worker processes, optional cross-solver), evidence."""
import os, sys, time, json, subprocess, hashlib, multiprocessing, traceback, re
import z3
from multiprocessing.pool import ThreadPool

QUICK_CAP_S = 150
THOROUGH_CAP_S = 1200


class Ob:
    __slots__ = ('name', 'smt2', 'expect', 'group', 'result', 'seconds', 'model', 'meta', 'text', 'cross', 'nontrivial', 'handled', 'cap', 'optional')

    def __init__(self, name, smt2, expect, group, meta, text, nontrivial=True):
        self.name, self.smt2, self.expect, self.group, self.meta, self.text = name, smt2, expect, group, meta, text
        self.result, self.seconds, self.model, self.cross = None, None, None, None
        self.nontrivial = nontrivial
        self.handled = False
        self.cap = None
        self.optional = False      # ladder rung: a timeout is recorded as 'beyond reach in this run', not as inconclusive


_MODEL_RE = re.compile(r'\(define-fun\s+(\S+)\s+\(\)\s+(\(_ BitVec \d+\)|Int|Bool)\s+([^\n]*?)\)\s*(?=\(define-fun|\)\s*$)', re.S)


def _parse_model(text):
    model = {}
    for m in _MODEL_RE.finditer(text):
        name, sort, val = m.group(1), m.group(2), m.group(3).strip()
        name = name.strip('|')
        try:
            if val.startswith('#x'):
                model[name] = int(val[2:], 16)
            elif val.startswith('#b'):
                model[name] = int(val[2:], 2)
            elif val.startswith('(- '):
                model[name] = -int(val[3:].rstrip(')').strip())
            elif val in ('true', 'false'):
                model[name] = (val == 'true')
            else:
                model[name] = int(val)
        except ValueError:
            model[name] = val
    return model


Z3_MEM_MB = int(os.environ.get('VERIF_Z3_MEM_MB', '3500'))


def _solve(args):
    """one query in a separate z3 process (hard wall-clock cap; the in-process timeout of the API does not cover
    preprocessing of large non-linear terms)"""
    smt2, timeout_s, want_model = args
    t0 = time.time()
    text = smt2 + '\n(check-sat)\n' + ('(get-model)\n' if want_model else '')
    try:
        # hard memory cap per solver process (16 run in parallel on a 62 GB machine without swap; some Pippenger steps of the thorough
        # tier grew to 9 GB each and brought the global OOM killer in): running out of memory is "unknown", never a verdict
        p = subprocess.run(['z3-new', '-in', '-T:%d' % int(timeout_s), '-memory:%d' % Z3_MEM_MB], input=text, stdout=subprocess.PIPE,
                           stderr=subprocess.PIPE, text=True, timeout=timeout_s + 15)
    except subprocess.TimeoutExpired:
        return 'timeout', round(time.time() - t0, 3), None
    out = p.stdout
    first = out.strip().split('\n')[0] if out.strip() else ''
    secs = round(time.time() - t0, 3)
    if first == 'unsat':
        if '(error' in out.replace('(error "line', '(error "line') and 'model is not available' not in out:
            return 'error: ' + out[:200], secs, None
        return 'unsat', secs, None
    if first == 'sat':
        return 'sat', secs, _parse_model(out[out.index('sat') + 3:]) if want_model else None
    if first in ('unknown', 'timeout'):
        return first, secs, None
    if 'out of memory' in (out + p.stderr).lower() or 'memory' in first.lower():
        return 'unknown', secs, None
    return 'error: ' + (out + p.stderr)[:300], secs, None


def _cross(args):
    smt2, solver, timeout_s = args
    text = smt2
    if '(check-sat)' not in text:
        text += '\n(check-sat)\n'
    if solver == 'cvc5':
        cmd = ['cvc5', '--lang', 'smt2', '--tlimit', str(int(timeout_s * 1000))]
        text = '(set-logic ALL)\n' + text
        # z3 prints its internal "divisor known to be non-zero" operators; on such divisors they coincide with the SMT-LIB ones
        for op in ('bvurem', 'bvudiv', 'bvsdiv', 'bvsrem', 'bvsmod'):
            text = text.replace('(%s_i ' % op, '(%s ' % op)
    elif solver == 'z3-old':
        cmd = ['/usr/bin/z3', '-in', '-T:%d' % int(timeout_s)]
    else:
        cmd = ['z3-new', '-in', '-T:%d' % int(timeout_s)]
    try:
        p = subprocess.run(cmd, input=text, stdout=subprocess.PIPE, stderr=subprocess.PIPE, text=True, timeout=timeout_s + 10)
        out = p.stdout.strip().split('\n')
        if any('(error' in l for l in out):
            return 'error: ' + ' '.join(out)[:200]
        for l in out:
            if l in ('sat', 'unsat', 'unknown', 'timeout'):
                return l
        return 'unknown: ' + ' '.join(out)[:100] + p.stderr[:100]
    except subprocess.TimeoutExpired:
        return 'timeout'


class Check:
    def __init__(self, pid, tier='quick', seed=0):
        self.pid, self.tier, self.seed = pid, tier, seed
        self.t0 = time.time()
        self.obs = []
        self.grounds = []           # (name, ok, detail)
        self.notes = []
        self.assumptions = []
        self.functions = {}         # encoded fn -> hash
        self.leaf_models = {}
        self.bounds = {}
        self.trusted = []
        self.kani = []              # harness results
        self.violations = []        # (description, replay path)
        self.known = []             # KNOWN-FINDING lines
        self.inconclusive = []
        self.cap = QUICK_CAP_S if tier == 'quick' else THOROUGH_CAP_S
        self.mir_info = None
        self.solver_seconds = 0.0
        self.extra = {}
        self.formulas = {}          # name -> z3 formula (in-process only; for concrete confirmation of sat answers)
        self.axioms = []            # background facts conjoined to every query (e.g. isz(0), not isz(1))

    # ------------------------------------------------------------ recording
    def must_unsat(self, name, formula, group='', meta=None, text=None, cap=None, optional=False):
        """formula describes a *violation*; the obligation holds iff it is unsatisfiable"""
        self._add(name, formula, 'unsat', group, meta, text)
        if cap:
            self.obs[-1].cap = cap
        self.obs[-1].optional = optional

    def must_sat(self, name, formula, group='vacuity', meta=None, text=None):
        """reachability / non-vacuity witness: must be satisfiable"""
        self._add(name, formula, 'sat', group, meta, text)

    def _add(self, name, formula, expect, group, meta, text):
        if isinstance(formula, bool):
            formula = z3.BoolVal(formula)
        self.formulas[name] = formula
        s = z3.Solver()
        for ax in self.axioms:
            s.add(ax)
        s.add(formula)
        smt2 = s.to_smt2().replace('(check-sat)', '')
        simp = z3.simplify(formula)
        nontrivial = not (z3.is_true(simp) or z3.is_false(simp))
        if text is None:
            if len(smt2) < 20000:
                text = str(simp)
                if len(text) > 600:
                    text = text[:600] + ' ...'
            else:
                text = '(formula of %d bytes of SMT-LIB; not printed)' % len(smt2)
        self.obs.append(Ob(name, smt2, expect, group, meta, text, nontrivial))

    def must_unsat_any(self, name, formulas, group='no-panic', cap=None, optional=False):
        """one query for a family of violation formulas (e.g. every panic site of one run): unsat iff none is satisfiable"""
        fs = [f for f in formulas if not (isinstance(f, bool) and f is False)]
        if not fs:
            return
        self.must_unsat('%s [%d sites]' % (name, len(fs)), z3.Or(*[z3.BoolVal(f) if isinstance(f, bool) else f for f in fs]), group=group, cap=cap, optional=optional,
                        text='disjunction of %d site conditions (panic / bounds / unwinding)' % len(fs))

    def ground(self, name, ok, detail=''):
        self.grounds.append((name, bool(ok), detail))

    def shape(self, name, ok, detail=''):
        """an expectation about the SHAPE of the code (which algorithm, how many calls, which constants appear) that the obligations of
        a check are written against.  It is not part of the property: when it fails the check cannot decide (exit 2) -- it is never
        reported as a violation, so a correct re-implementation is not alarmed on; a broken one has to be caught semantically."""
        if ok:
            self.grounds.append(('[shape] ' + name, True, detail))
        else:
            self.shape_failures = getattr(self, 'shape_failures', [])
            self.shape_failures.append((name, detail))

    def note(self, s):
        self.notes.append(s)

    def add_executor(self, ex):
        ex.harvested = len(ex.obligations)
        self.functions.update(ex.encoded)
        for k, v in ex.leaf_used.items():
            self.leaf_models[k] = self.leaf_models.get(k, 0) + v

    def panic_obligations(self, ex, prefix, allow=None, start=0):
        """every recorded panic/unwind obligation of the executor becomes a must-unsat query"""
        n = 0
        for i, o in enumerate(ex.obligations[start:]):
            if allow and allow(o):
                continue
            self.must_unsat('%s/no-%s#%d %s' % (prefix, o.kind, i, o.where[1] if o.where else ''), o.formula(),
                            group='no-panic', text='%s at %s: %s' % (o.kind, o.where, o.msg))
            n += 1
        return n

    # ------------------------------------------------------------ discharge
    def discharge(self, jobs=None, cross=None):
        jobs = jobs or min(16, os.cpu_count() or 4)
        pending = [o for o in self.obs if o.result is None]
        if not pending:
            return
        t0 = time.time()
        pending.sort(key=lambda o: -(o.cap or 0))      # long-running queries first
        args = [(o.smt2, max(self.cap, o.cap or 0), True) for o in pending]
        # identical SMT-LIB texts (e.g. the G1 and G2 instantiations of one macro body) are solved once
        uniq = {}
        for a in args:
            uniq.setdefault(a[0], a)
        ulist = list(uniq.values())
        if len(ulist) == 1 or jobs == 1:
            ures = [_solve(a) for a in ulist]
        else:
            with ThreadPool(min(jobs, len(ulist))) as pool:
                ures = pool.map(_solve, ulist, chunksize=1)
        rmap = {a[0]: r for a, r in zip(ulist, ures)}
        self.extra['distinct_smt_texts_solved'] = self.extra.get('distinct_smt_texts_solved', 0) + len(ulist)
        counted = set()
        for o in pending:
            r, secs, model = rmap[o.smt2]
            o.result, o.seconds, o.model = r, secs, model
            if o.smt2 not in counted:
                counted.add(o.smt2)
                self.solver_seconds += secs
        if cross is None:
            cross = ['cvc5', 'z3-old'] if self.tier == 'thorough' else []
        for solver in cross:
            # the second / third opinion is asked for obligations the primary solver decided within 20 s, with a 60 s cap: re-deciding the
            # heavy Pippenger steps with cvc5 at 300 s each kept a thorough run in this pass for hours (the skipped ones are counted)
            cheap = [o for o in pending if o.result in ('sat', 'unsat') and (o.seconds or 0) < 20]
            self.extra['cross_solver_skipped_heavy'] = self.extra.get('cross_solver_skipped_heavy', 0) + (len(pending) - len(cheap))
            if not cheap:
                continue
            cargs = [(o.smt2, solver, min(self.cap, 60)) for o in cheap]
            with ThreadPool(min(jobs, len(cheap))) as pool:
                cres = pool.map(_cross, cargs, chunksize=1)
            for o, r in zip(cheap, cres):
                o.cross = o.cross or {}
                o.cross[solver] = r
        self.extra['discharge_wall_s'] = round(self.extra.get('discharge_wall_s', 0) + time.time() - t0, 2)

    def failed(self):
        """obligations whose verdict contradicts the expectation (sat where unsat expected etc.)"""
        return [o for o in self.obs if o.result in ('sat', 'unsat') and o.result != o.expect]

    def undecided(self):
        return [o for o in self.obs if o.result not in ('sat', 'unsat') and not o.optional]

    def beyond_reach(self):
        return [o for o in self.obs if o.result not in ('sat', 'unsat') and o.optional]

    def cross_disagreements(self):
        out = []
        for o in self.obs:
            for sname, r in (o.cross or {}).items():
                if r in ('sat', 'unsat') and o.result in ('sat', 'unsat') and r != o.result:
                    out.append((o.name, sname, r, o.result))
                if r.startswith('error'):
                    out.append((o.name, sname, r, o.result))
        return out

    # ------------------------------------------------------------ evidence
    def evidence(self, level='other', explanation='', extra_cov=None):
        obs = self.obs
        discharged = [o for o in obs if o.result == o.expect]
        kani_ok = [k for k in self.kani if k.get('status') == 'SUCCESS']
        samples = []
        seen_groups = set()
        for o in obs:
            if o.group not in seen_groups and len(samples) < 12:
                seen_groups.add(o.group)
                samples.append({'obligation': o.name, 'group': o.group, 'expect': o.expect, 'result': o.result,
                                'seconds': o.seconds, 'formula': o.text})
        for k in self.kani[:6]:
            samples.append({'kani_harness': k.get('harness'), 'status': k.get('status'), 'checks': k.get('checks'),
                            'seconds': k.get('seconds'), 'unwind': k.get('unwind')})
        for g in self.grounds[:6]:
            samples.append({'ground_fact': g[0], 'ok': g[1], 'detail': g[2][:300]})
        n_ob = len(obs) + len(self.kani) + len(self.grounds)
        n_dis = len(discharged) + len(kani_ok) + len([g for g in self.grounds if g[1]])
        distinct = len(set(hashlib.sha1(o.smt2.encode()).hexdigest() for o in obs if o.nontrivial)) + \
            len(set(k.get('harness') for k in self.kani)) + len(set(g[0] for g in self.grounds))
        cov = {
            'obligations': n_ob,
            'discharged': n_dis,
            'evaluations': len(obs) + sum(k.get('checks', 0) or 0 for k in self.kani) + len(self.grounds),
            'distinct_nontrivial': distinct,
            'rule': 'one evaluation = one solver query (SMT obligation, CBMC property inside a Kani harness, or ground '
                    'fact evaluated on exact integers); distinct = distinct SMT-LIB texts that do not simplify to '
                    'true/false + distinct Kani harnesses + distinct ground facts',
            'samples': samples or [{'note': 'no obligations generated'}],
            'explanation': explanation,
            'exhaustive': False,
            'checker_cmd': 'z3 %s (python API) per obligation, cap %ds%s' % (z3.get_version_string(), self.cap,
                                                                         '; cross-checked with cvc5 1.0.3 and z3 4.8.12' if self.tier == 'thorough' else ''),
            'trusted_base': self.trusted,
            'functions_encoded': [{'fn': k, 'mir_sha': v} for k, v in sorted(self.functions.items())][:400],
            'functions_encoded_count': len(self.functions),
            'leaf_models_used': self.leaf_models,
            'bounds': self.bounds,
            'smt_queries': len(obs),
            'smt_unsat': len([o for o in obs if o.result == 'unsat']),
            'smt_sat_witnesses': len([o for o in obs if o.result == 'sat' and o.expect == 'sat']),
            'solver_seconds': round(self.solver_seconds, 2),
            'slowest_queries': [{'name': o.name, 's': o.seconds} for o in sorted(obs, key=lambda o: -(o.seconds or 0))[:5]],
            'ground_facts': len(self.grounds),
            'kani_harnesses': [{'harness': k.get('harness'), 'status': k.get('status'), 'checks': k.get('checks'),
                                'seconds': k.get('seconds')} for k in self.kani],
            'mir': self.mir_info,
            'notes': self.notes,
            'ladder_rungs_not_discharged_in_this_run': [{'name': o.name, 'result': o.result, 'cap_s': max(self.cap, o.cap or 0)} for o in self.beyond_reach()],
            'known_findings_reported': self.known,
            'cross_solver': {'disagreements': self.cross_disagreements(),
                             'checked': len([o for o in obs if o.cross])},
        }
        cov.update(self.extra)
        if extra_cov:
            cov.update(extra_cov)
        return {
            'property_id': self.pid,
            'tier': self.tier,
            'seed': self.seed,
            'level': level,
            'coverage': cov,
            'assumptions': self.assumptions,
            'wall_s': round(time.time() - self.t0, 2),
            'violations': len(self.violations),
        }
