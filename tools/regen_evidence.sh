#!/bin/bash
# Re-runs every registered quick command in /verif against /repo (clean tree) so that /verif/evidence/*.json describe the tree and the
# checks as committed.  Prints one line per check; any non-zero exit is a problem to fix before committing the evidence.
cd /verif
git -C /repo status --short | grep -v '^??' && { echo "/repo has uncommitted changes"; exit 3; }
for c in C01 C02 C04 C05 C06 C07 C08 C09 C10 C11 C12 C13 C14 C15 C16 C17 C18 C19; do
  t0=$(date +%s)
  ./check $c > /var/tmp/regen_$c.log 2>&1
  rc=$?
  echo "REGEN $c rc=$rc wall=$(( $(date +%s) - t0 ))s $(tail -1 /var/tmp/regen_$c.log | cut -c1-120)"
done
