//! Independent reference: affine short-Weierstrass group law over F_p (a = 0), written with `%` arithmetic.
#[derive(Copy, Clone, PartialEq, Eq, Debug)]
pub struct RP {
    pub x: u32,
    pub y: u32,
    pub inf: bool,
}
pub const RO: RP = RP { x: 0, y: 0, inf: true };

pub fn rinv(a: u32, p: u32) -> u32 {
    let mut i = 1;
    while i < p {
        if (a * i) % p == 1 {
            return i;
        }
        i += 1;
    }
    0
}
pub fn rneg(q: RP, p: u32) -> RP {
    if q.inf {
        q
    } else {
        RP { x: q.x, y: (p - q.y) % p, inf: false }
    }
}
pub fn radd(p1: RP, p2: RP, p: u32) -> RP {
    if p1.inf {
        return p2;
    }
    if p2.inf {
        return p1;
    }
    let lam;
    if p1.x == p2.x {
        if (p1.y + p2.y) % p == 0 {
            return RO;
        }
        lam = ((3 * p1.x * p1.x) % p) * rinv((2 * p1.y) % p, p) % p;
    } else {
        lam = ((p2.y + p - p1.y) % p) * rinv((p2.x + p - p1.x) % p, p) % p;
    }
    let x3 = (lam * lam + 2 * p - p1.x - p2.x) % p;
    let y3 = (lam * ((p1.x + p - x3) % p) + p - p1.y) % p;
    RP { x: x3, y: y3, inf: false }
}
pub fn on_curve(q: RP, p: u32, b: u32) -> bool {
    q.inf || (q.y * q.y) % p == (q.x * q.x % p * q.x + b) % p
}
/// affine image of a Jacobian triple
pub fn from_jac(x: u32, y: u32, z: u32, p: u32) -> RP {
    if z % p == 0 {
        return RO;
    }
    let zi = rinv(z, p);
    let zi2 = zi * zi % p;
    RP { x: x * zi2 % p, y: y * (zi2 * zi % p) % p, inf: false }
}
pub fn jac_valid(x: u32, y: u32, z: u32, p: u32, b: u32) -> bool {
    let z2 = z * z % p;
    let z6 = z2 * z2 % p * z2 % p;
    z == 0 || (y * y) % p == (x * x % p * x + b * z6) % p
}
