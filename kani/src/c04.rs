//! C04 / C05 K-bits: the real point decoders and encoders, every byte symbolic, against an independent decision list /
//! byte-level encoder written from the format description (README of bls12_381).
//!
//! Stubs (listed in the evidence): Fq::mul_assign and Fq::square are no-ops and Fq::into_repr is the identity, so an `Fq`
//! simply holds its canonical integer (what the stubbed Montgomery code really does is C08's business); sqrt returns an
//! arbitrary oracle answer (exposed through a static), in_subgroup an arbitrary boolean; alloc::fmt::format is empty.
use crate::c08::Q;
use pp::bls12_381::{Fq, Fq2, FqRepr, G1Affine, G1Compressed, G1Uncompressed, G2Affine, G2Compressed, G2Uncompressed};
use pp::{CurveAffine, EncodedPoint, GroupDecodingError, SubgroupCheck};

pub static mut INSUB: bool = false;
pub static mut SQRT_SOME: bool = false;
pub static mut SQRT_Y: [u64; 6] = [0; 6];
pub static mut SQRT_Y2: [[u64; 6]; 2] = [[0; 6]; 2];

pub fn stub_noop_mul(_a: &mut Fq, _b: &Fq) {}
pub fn stub_noop_sq(_a: &mut Fq) {}
pub fn stub_format(_a: std::fmt::Arguments<'_>) -> String {
    String::new()
}
pub fn stub_into_repr(a: &Fq) -> FqRepr {
    FqRepr(unsafe { std::mem::transmute::<Fq, [u64; 6]>(*a) })
}
pub fn stub_insub_g1(_p: &G1Affine) -> bool {
    unsafe { INSUB }
}
pub fn stub_insub_g2(_p: &G2Affine) -> bool {
    unsafe { INSUB }
}
pub fn stub_sqrt_fq(_a: &Fq) -> Option<Fq> {
    unsafe {
        if SQRT_SOME {
            Some(pp::bls12_381::transmute::fq(FqRepr(SQRT_Y)))
        } else {
            None
        }
    }
}
pub fn stub_sqrt_fq2(_a: &Fq2) -> Option<Fq2> {
    unsafe {
        if SQRT_SOME {
            Some(Fq2 { c0: pp::bls12_381::transmute::fq(FqRepr(SQRT_Y2[0])), c1: pp::bls12_381::transmute::fq(FqRepr(SQRT_Y2[1])) })
        } else {
            None
        }
    }
}

fn lt(a: &[u64; 6], b: &[u64; 6]) -> bool {
    let mut i = 6;
    while i > 0 {
        i -= 1;
        if a[i] < b[i] {
            return true;
        }
        if a[i] > b[i] {
            return false;
        }
    }
    false
}
fn is0(a: &[u64; 6]) -> bool {
    a[0] | a[1] | a[2] | a[3] | a[4] | a[5] == 0
}
/// q - a for 0 < a < q ; 0 for a = 0
fn neg(a: &[u64; 6]) -> [u64; 6] {
    if is0(a) {
        return *a;
    }
    let mut out = [0u64; 6];
    let mut borrow = 0i128;
    let mut i = 0;
    while i < 6 {
        let t = Q[i] as i128 - a[i] as i128 - borrow;
        if t < 0 {
            out[i] = (t + (1i128 << 64)) as u64;
            borrow = 1;
        } else {
            out[i] = t as u64;
            borrow = 0;
        }
        i += 1;
    }
    out
}
/// big-endian 48 bytes -> little-endian limbs, with `mask` applied to the first byte
fn be48(b: &[u8], off: usize, mask: u8) -> [u64; 6] {
    let mut out = [0u64; 6];
    let mut i = 0;
    while i < 48 {
        let byte = if i == 0 { b[off] & mask } else { b[off + i] };
        let pos = 47 - i; // significance in bytes
        out[pos / 8] |= (byte as u64) << (8 * (pos % 8));
        i += 1;
    }
    out
}
fn put48(out: &mut [u8], off: usize, v: &[u64; 6]) {
    let mut i = 0;
    while i < 48 {
        let pos = 47 - i;
        out[off + i] = (v[pos / 8] >> (8 * (pos % 8))) as u8;
        i += 1;
    }
}
fn rest_zero(b: &[u8], n: usize) -> bool {
    let mut z = b[0] & 0x3f == 0;
    let mut i = 1;
    while i < n {
        z &= b[i] == 0;
        i += 1;
    }
    z
}
fn raw(x: &Fq) -> [u64; 6] {
    unsafe { std::mem::transmute::<Fq, [u64; 6]>(*x) }
}
fn mkfq(l: [u64; 6]) -> Fq {
    unsafe { pp::bls12_381::transmute::fq(FqRepr(l)) }
}

#[derive(PartialEq, Eq, Clone, Copy)]
enum Cat {
    OkInf,
    OkPoint,
    Compression,
    Information,
    Coordinate,
    NotOnCurve,
    NotInSubgroup,
}
fn cat<T>(r: &Result<T, GroupDecodingError>, inf: bool) -> Cat {
    match r {
        Ok(_) => {
            if inf {
                Cat::OkInf
            } else {
                Cat::OkPoint
            }
        }
        Err(GroupDecodingError::UnexpectedCompressionMode) => Cat::Compression,
        Err(GroupDecodingError::UnexpectedInformation) => Cat::Information,
        Err(GroupDecodingError::CoordinateDecodingError(_, _)) => Cat::Coordinate,
        Err(GroupDecodingError::NotOnCurve) => Cat::NotOnCurve,
        Err(GroupDecodingError::NotInSubgroup) => Cat::NotInSubgroup,
    }
}

// ------------------------------------------------------------------ G1
/// decision list for the flag / range part. returns (category, x, y)
fn spec_g1_uncompressed(b: &[u8; 96]) -> (Cat, [u64; 6], [u64; 6]) {
    let z = [0u64; 6];
    if b[0] & 0x80 != 0 {
        return (Cat::Compression, z, z);
    }
    if b[0] & 0x40 != 0 {
        return (if rest_zero(b, 96) { Cat::OkInf } else { Cat::Information }, z, z);
    }
    if b[0] & 0x20 != 0 {
        return (Cat::Information, z, z);
    }
    let x = be48(b, 0, 0x1f);
    let y = be48(b, 48, 0xff);
    if !lt(&x, &Q) || !lt(&y, &Q) {
        return (Cat::Coordinate, z, z);
    }
    (Cat::OkPoint, x, y)
}

macro_rules! common_stubs {
    ($unw:expr, $item:item) => {
        #[kani::proof]
        #[kani::unwind($unw)]
        #[kani::stub(<pairing_plus::bls12_381::Fq as ff_zeroize::Field>::mul_assign, stub_noop_mul)]
        #[kani::stub(<pairing_plus::bls12_381::Fq as ff_zeroize::Field>::square, stub_noop_sq)]
        #[kani::stub(<pairing_plus::bls12_381::Fq as ff_zeroize::PrimeField>::into_repr, stub_into_repr)]
        #[kani::stub(alloc::fmt::format, stub_format)]
        #[kani::stub(<pairing_plus::bls12_381::Fq as ff_zeroize::SqrtField>::sqrt, stub_sqrt_fq)]
        #[kani::stub(<pairing_plus::bls12_381::Fq2 as ff_zeroize::SqrtField>::sqrt, stub_sqrt_fq2)]
        #[kani::stub(<pairing_plus::bls12_381::G1Affine as pairing_plus::SubgroupCheck>::in_subgroup, stub_insub_g1)]
        #[kani::stub(<pairing_plus::bls12_381::G2Affine as pairing_plus::SubgroupCheck>::in_subgroup, stub_insub_g2)]
        $item
    };
}

fn load_g1u(bytes: &[u8; 96]) -> G1Uncompressed {
    let mut enc = G1Uncompressed::empty();
    let mut i = 0;
    while i < 96 {
        enc.as_mut()[i] = bytes[i];
        i += 1;
    }
    enc
}
common_stubs! { 98,
fn g1_uncompressed() {
    // unchecked decoder = the decision list: flags, infinity/sort, coordinate range; parsed integers
    let bytes: [u8; 96] = kani::any();
    let enc = load_g1u(&bytes);
    let (sc, sx, sy) = spec_g1_uncompressed(&bytes);
    let got = enc.into_affine_unchecked();
    let inf = match &got { Ok(p) => p.is_zero(), _ => false };
    assert!(cat(&got, inf) == sc);
    if let Ok(p) = &got {
        let (x, y, _) = p.verif_raw();
        if !inf {
            assert!(raw(&x) == sx && raw(&y) == sy);
        }
    }
    kani::cover!(sc == Cat::OkPoint, "finite point accepted");
    std::mem::forget(got);
}
}
common_stubs! { 98,
fn g1_uncompressed_reencode() {
    // non-malleability: whenever the bytes decode, re-encoding the point reproduces them
    let bytes: [u8; 96] = kani::any();
    let enc = load_g1u(&bytes);
    let got = enc.into_affine_unchecked();
    if let Ok(p) = &got {
        let re = G1Uncompressed::from_affine(*p);
        let mut j = 0;
        while j < 96 {
            assert!(re.as_ref()[j] == bytes[j]);
            j += 1;
        }
    }
    kani::cover!(got.is_ok(), "accepted");
    std::mem::forget(got);
}
}
common_stubs! { 98,
fn g1_uncompressed_checked() {
    // checked decoder = unchecked, then curve equation, then subgroup (in that order)
    let bytes: [u8; 96] = kani::any();
    unsafe { INSUB = kani::any(); }
    let enc = load_g1u(&bytes);
    let un = enc.into_affine_unchecked();
    let chk = enc.into_affine();
    match &un {
        Ok(p) => {
            let want = if !p.verif_is_on_curve() { Cat::NotOnCurve } else if unsafe { !INSUB } { Cat::NotInSubgroup } else if p.is_zero() { Cat::OkInf } else { Cat::OkPoint };
            let cinf = match &chk { Ok(q) => q.is_zero(), _ => false };
            assert!(cat(&chk, cinf) == want);
            if let Ok(q) = &chk {
                assert!(q == p);
            }
        }
        Err(_) => {
            assert!(cat(&chk, false) == cat(&un, false));
        }
    }
    kani::cover!(chk.is_ok(), "accepted");
    std::mem::forget(chk);
    std::mem::forget(un);
}
}

common_stubs! { 50,
fn g1_compressed() {
    let bytes: [u8; 48] = kani::any();
    unsafe {
        INSUB = kani::any();
        SQRT_SOME = kani::any();
        SQRT_Y = kani::any();
        kani::assume(lt(&SQRT_Y, &Q) && !is0(&SQRT_Y));
    }
    let mut enc = G1Compressed::empty();
    let mut i = 0;
    while i < 48 {
        enc.as_mut()[i] = bytes[i];
        i += 1;
    }
    let x = be48(&bytes, 0, 0x1f);
    let greatest = bytes[0] & 0x20 != 0;
    let y = unsafe { SQRT_Y };
    let ny = neg(&y);
    let ysel = if lt(&y, &ny) ^ greatest { y } else { ny };
    let sc = if bytes[0] & 0x80 == 0 {
        Cat::Compression
    } else if bytes[0] & 0x40 != 0 {
        if rest_zero(&bytes, 48) { Cat::OkInf } else { Cat::Information }
    } else if !lt(&x, &Q) {
        Cat::Coordinate
    } else if unsafe { !SQRT_SOME } {
        Cat::NotOnCurve
    } else {
        Cat::OkPoint
    };
    let got = enc.into_affine_unchecked();
    let inf = match &got { Ok(p) => p.is_zero(), _ => false };
    assert!(cat(&got, inf) == sc);
    if let Ok(p) = &got {
        if !inf {
            let (px, py, _) = p.verif_raw();
            assert!(raw(&px) == x && raw(&py) == ysel);
        }
        let re = G1Compressed::from_affine(*p);
        let mut j = 0;
        while j < 48 {
            assert!(re.as_ref()[j] == bytes[j]);
            j += 1;
        }
    }
    let want = if (sc == Cat::OkInf || sc == Cat::OkPoint) && unsafe { !INSUB } { Cat::NotInSubgroup } else { sc };
    let chk = enc.into_affine();
    let cinf = match &chk { Ok(q) => q.is_zero(), _ => false };
    assert!(cat(&chk, cinf) == want);
    kani::cover!(sc == Cat::OkPoint && greatest, "finite point accepted with the sort flag");
    std::mem::forget(chk);
    std::mem::forget(got);
}
}

common_stubs! { 98,
fn g1_encode_roundtrip() {
    let x: [u64; 6] = kani::any();
    let y: [u64; 6] = kani::any();
    let inf: bool = kani::any();
    kani::assume(lt(&x, &Q) && lt(&y, &Q) && !is0(&y));
    // the identity in ANY affine representation: infinity = true with arbitrary residual coordinates (not only the canonical zero())
    let p = G1Affine::verif_from_raw(mkfq(x), mkfq(y), inf);
    // independent encoders
    let mut wu = [0u8; 96];
    let mut wc = [0u8; 48];
    if inf {
        wu[0] = 0x40;
        wc[0] = 0xc0;
    } else {
        put48(&mut wu, 0, &x);
        put48(&mut wu, 48, &y);
        put48(&mut wc, 0, &x);
        wc[0] |= 0x80;
        if lt(&neg(&y), &y) {
            wc[0] |= 0x20;
        }
    }
    let u = G1Uncompressed::from_affine(p);
    let c = G1Compressed::from_affine(p);
    assert!(G1Uncompressed::size() == 96 && G1Compressed::size() == 48 && u.as_ref().len() == 96 && c.as_ref().len() == 48);
    let mut i = 0;
    while i < 96 {
        assert!(u.as_ref()[i] == wu[i]);
        if i < 48 {
            assert!(c.as_ref()[i] == wc[i]);
        }
        i += 1;
    }
    // CurveAffine::into_uncompressed / into_compressed are the same encoders
    let u2 = p.into_uncompressed();
    let c2 = p.into_compressed();
    i = 0;
    while i < 96 {
        assert!(u2.as_ref()[i] == wu[i]);
        if i < 48 {
            assert!(c2.as_ref()[i] == wc[i]);
        }
        i += 1;
    }
    // decode(encode(P)) = P  (compressed form: the square-root oracle returns either root of the right y)
    let d = u.into_affine_unchecked();
    assert!(d.is_ok());
    if let Ok(q) = &d {
        assert!(if inf { q.is_zero() } else { *q == p });
    }
    unsafe {
        SQRT_SOME = true;
        let flip: bool = kani::any();
        SQRT_Y = if flip { neg(&y) } else { y };
    }
    let d2 = c.into_affine_unchecked();
    assert!(d2.is_ok());
    if let Ok(q) = &d2 {
        assert!(if inf { q.is_zero() } else { *q == p });
    }
    kani::cover!(!inf && lt(&neg(&y), &y), "sort flag set");
    std::mem::forget(d);
    std::mem::forget(d2);
}
}

// ------------------------------------------------------------------ G2 (c1 before c0; lexicographic order with c1 most significant)
/// (q - 1) / 2, little-endian limbs
const HALF_Q: [u64; 6] = [0xdcff7fffffffd555, 0x0f55ffff58a9ffff, 0xb39869507b587b12, 0xb23ba5c279c2895f, 0x258dd3db21a5d66b, 0x0d0088f51cbff34d];
fn lt2(a: &[[u64; 6]; 2], b: &[[u64; 6]; 2]) -> bool {
    // a, b = [c0, c1]
    if lt(&a[1], &b[1]) {
        return true;
    }
    if lt(&b[1], &a[1]) {
        return false;
    }
    lt(&a[0], &b[0])
}
fn raw2(x: &Fq2) -> [[u64; 6]; 2] {
    [raw(&x.c0), raw(&x.c1)]
}
fn mkfq2(l: [[u64; 6]; 2]) -> Fq2 {
    Fq2 { c0: mkfq(l[0]), c1: mkfq(l[1]) }
}

fn load_g2u(bytes: &[u8; 192]) -> G2Uncompressed {
    let mut enc = G2Uncompressed::empty();
    let mut i = 0;
    while i < 192 {
        enc.as_mut()[i] = bytes[i];
        i += 1;
    }
    enc
}
common_stubs! { 194,
fn g2_uncompressed() {
    let bytes: [u8; 192] = kani::any();
    let enc = load_g2u(&bytes);
    let xc1 = be48(&bytes, 0, 0x1f);
    let xc0 = be48(&bytes, 48, 0xff);
    let yc1 = be48(&bytes, 96, 0xff);
    let yc0 = be48(&bytes, 144, 0xff);
    let sc = if bytes[0] & 0x80 != 0 {
        Cat::Compression
    } else if bytes[0] & 0x40 != 0 {
        if rest_zero(&bytes, 192) { Cat::OkInf } else { Cat::Information }
    } else if bytes[0] & 0x20 != 0 {
        Cat::Information
    } else if !lt(&xc1, &Q) || !lt(&xc0, &Q) || !lt(&yc1, &Q) || !lt(&yc0, &Q) {
        Cat::Coordinate
    } else {
        Cat::OkPoint
    };
    let got = enc.into_affine_unchecked();
    let inf = match &got { Ok(p) => p.is_zero(), _ => false };
    assert!(cat(&got, inf) == sc);
    if let Ok(p) = &got {
        let (x, y, _) = p.verif_raw();
        if !inf {
            assert!(raw2(&x) == [xc0, xc1] && raw2(&y) == [yc0, yc1]);
        }
    }
    kani::cover!(sc == Cat::OkPoint, "finite point accepted");
    std::mem::forget(got);
}
}
common_stubs! { 194,
fn g2_uncompressed_reencode() {
    let bytes: [u8; 192] = kani::any();
    let enc = load_g2u(&bytes);
    let got = enc.into_affine_unchecked();
    if let Ok(p) = &got {
        let re = G2Uncompressed::from_affine(*p);
        let mut j = 0;
        while j < 192 {
            assert!(re.as_ref()[j] == bytes[j]);
            j += 1;
        }
    }
    kani::cover!(got.is_ok(), "accepted");
    std::mem::forget(got);
}
}
common_stubs! { 194,
fn g2_uncompressed_checked() {
    let bytes: [u8; 192] = kani::any();
    unsafe { INSUB = kani::any(); }
    let enc = load_g2u(&bytes);
    let un = enc.into_affine_unchecked();
    let chk = enc.into_affine();
    match &un {
        Ok(p) => {
            let want = if !p.verif_is_on_curve() { Cat::NotOnCurve } else if unsafe { !INSUB } { Cat::NotInSubgroup } else if p.is_zero() { Cat::OkInf } else { Cat::OkPoint };
            let cinf = match &chk { Ok(q) => q.is_zero(), _ => false };
            assert!(cat(&chk, cinf) == want);
        }
        Err(_) => {
            assert!(cat(&chk, false) == cat(&un, false));
        }
    }
    kani::cover!(chk.is_ok(), "accepted");
    std::mem::forget(chk);
    std::mem::forget(un);
}
}

common_stubs! { 98,
fn g2_compressed() {
    let bytes: [u8; 96] = kani::any();
    unsafe {
        INSUB = kani::any();
        SQRT_SOME = kani::any();
        SQRT_Y2 = kani::any();
        kani::assume(lt(&SQRT_Y2[0], &Q) && lt(&SQRT_Y2[1], &Q) && !(is0(&SQRT_Y2[0]) && is0(&SQRT_Y2[1])));
    }
    let mut enc = G2Compressed::empty();
    let mut i = 0;
    while i < 96 {
        enc.as_mut()[i] = bytes[i];
        i += 1;
    }
    let xc1 = be48(&bytes, 0, 0x1f);
    let xc0 = be48(&bytes, 48, 0xff);
    let greatest = bytes[0] & 0x20 != 0;
    let y = unsafe { SQRT_Y2 };
    let ny = [neg(&y[0]), neg(&y[1])];
    let ysel = if lt2(&y, &ny) ^ greatest { y } else { ny };
    let sc = if bytes[0] & 0x80 == 0 {
        Cat::Compression
    } else if bytes[0] & 0x40 != 0 {
        if rest_zero(&bytes, 96) { Cat::OkInf } else { Cat::Information }
    } else if !lt(&xc1, &Q) || !lt(&xc0, &Q) {
        Cat::Coordinate
    } else if unsafe { !SQRT_SOME } {
        Cat::NotOnCurve
    } else {
        Cat::OkPoint
    };
    let got = enc.into_affine_unchecked();
    let inf = match &got { Ok(p) => p.is_zero(), _ => false };
    assert!(cat(&got, inf) == sc);
    if let Ok(p) = &got {
        if !inf {
            let (px, py, _) = p.verif_raw();
            assert!(raw2(&px) == [xc0, xc1] && raw2(&py) == ysel);
        }
        let re = G2Compressed::from_affine(*p);
        let mut j = 0;
        while j < 96 {
            assert!(re.as_ref()[j] == bytes[j]);
            j += 1;
        }
    }
    let want = if (sc == Cat::OkInf || sc == Cat::OkPoint) && unsafe { !INSUB } { Cat::NotInSubgroup } else { sc };
    let chk = enc.into_affine();
    let cinf = match &chk { Ok(q) => q.is_zero(), _ => false };
    assert!(cat(&chk, cinf) == want);
    kani::cover!(sc == Cat::OkPoint && greatest, "finite point accepted with the sort flag");
    std::mem::forget(chk);
    std::mem::forget(got);
}
}

common_stubs! { 194,
fn g2_encode_roundtrip() {
    let x: [[u64; 6]; 2] = kani::any();
    let y: [[u64; 6]; 2] = kani::any();
    let inf: bool = kani::any();
    kani::assume(lt(&x[0], &Q) && lt(&x[1], &Q) && lt(&y[0], &Q) && lt(&y[1], &Q) && !(is0(&y[0]) && is0(&y[1])));
    // the identity in ANY affine representation: infinity = true with arbitrary residual coordinates (not only the canonical zero())
    let p = G2Affine::verif_from_raw(mkfq2(x), mkfq2(y), inf);
    let mut wu = [0u8; 192];
    let mut wc = [0u8; 96];
    let ny = [neg(&y[0]), neg(&y[1])];
    if inf {
        wu[0] = 0x40;
        wc[0] = 0xc0;
    } else {
        put48(&mut wu, 0, &x[1]);
        put48(&mut wu, 48, &x[0]);
        put48(&mut wu, 96, &y[1]);
        put48(&mut wu, 144, &y[0]);
        put48(&mut wc, 0, &x[1]);
        put48(&mut wc, 48, &x[0]);
        wc[0] |= 0x80;
        if lt2(&ny, &y) {
            wc[0] |= 0x20;
        }
    }
    let u = G2Uncompressed::from_affine(p);
    let c = G2Compressed::from_affine(p);
    assert!(G2Uncompressed::size() == 192 && G2Compressed::size() == 96 && u.as_ref().len() == 192 && c.as_ref().len() == 96);
    let mut i = 0;
    while i < 192 {
        assert!(u.as_ref()[i] == wu[i]);
        if i < 96 {
            assert!(c.as_ref()[i] == wc[i]);
        }
        i += 1;
    }
    let d = u.into_affine_unchecked();
    assert!(d.is_ok());
    if let Ok(q) = &d {
        assert!(if inf { q.is_zero() } else { *q == p });
    }
    unsafe {
        SQRT_SOME = true;
        let flip: bool = kani::any();
        SQRT_Y2 = if flip { ny } else { y };
    }
    let d2 = c.into_affine_unchecked();
    assert!(d2.is_ok());
    if let Ok(q) = &d2 {
        assert!(if inf { q.is_zero() } else { *q == p });
    }
    kani::cover!(!inf && lt2(&ny, &y), "sort flag set");
    std::mem::forget(d);
    std::mem::forget(d2);
}
}

// ------------------------------------------------------------------ cheap G2 harnesses for the per-change (quick) tier
// The full 192-byte / 96-byte G2 harnesses above take 20-40 minutes of SAT solving and run in the thorough tier.  The quick
// tier keeps the flag logic (first byte symbolic, one more symbolic byte anywhere, coordinates otherwise zero) and the sort-flag
// rule of the encoder (y.c0 fully symbolic, y.c1 one symbolic limb -- includes y.c1 = 0 where the tie-break on c0 decides).
common_stubs! { 194,
fn g2_uncompressed_flags() {
    // first byte fully symbolic (flags + top bits of x.c1), last byte symbolic, everything else zero
    let b0: u8 = kani::any();
    let bl: u8 = kani::any();
    // the top byte of one of the other three field elements (x.c0, y.c1, y.c0): no flag bits live there, all 8 bits are data
    let bt: u8 = kani::any();
    let which: u8 = kani::any();
    kani::assume(which < 3);
    let mut bytes = [0u8; 192];
    bytes[0] = b0;
    bytes[191] = bl;
    bytes[48 + 48 * which as usize] = bt;
    let enc = load_g2u(&bytes);
    let sc = if b0 & 0x80 != 0 {
        Cat::Compression
    } else if b0 & 0x40 != 0 {
        if b0 & 0x3f == 0 && bl == 0 && bt == 0 { Cat::OkInf } else { Cat::Information }
    } else if b0 & 0x20 != 0 {
        Cat::Information
    } else if b0 & 0x1f > 0x1a || bt > 0x1a {
        Cat::Coordinate          // a coordinate (b & mask) * 2^376 + small >= q  (q = 0x1a01...)
    } else {
        Cat::OkPoint
    };
    let got = enc.into_affine_unchecked();
    let inf = match &got { Ok(p) => p.is_zero(), _ => false };
    assert!(cat(&got, inf) == sc);
    kani::cover!(sc == Cat::OkPoint && b0 & 0x1f != 0, "finite point with high x bits");
    std::mem::forget(got);
}
}

common_stubs! { 98,
fn g2_compressed_flags() {
    let b0: u8 = kani::any();
    let bl: u8 = kani::any();
    let bt: u8 = kani::any();         // top byte of x.c0: all 8 bits are data
    let mut bytes = [0u8; 96];
    bytes[0] = b0;
    bytes[95] = bl;
    bytes[48] = bt;
    unsafe {
        SQRT_SOME = kani::any();
        SQRT_Y2 = [[0u64; 6]; 2];
        SQRT_Y2[0][0] = kani::any();
        SQRT_Y2[1][0] = kani::any();
        kani::assume(SQRT_Y2[0][0] != 0 || SQRT_Y2[1][0] != 0);
    }
    let mut enc = G2Compressed::empty();
    let mut i = 0;
    while i < 96 {
        enc.as_mut()[i] = bytes[i];
        i += 1;
    }
    let greatest = b0 & 0x20 != 0;
    let y = unsafe { SQRT_Y2 };
    let ny = [neg(&y[0]), neg(&y[1])];
    let ysel = if lt2(&y, &ny) ^ greatest { y } else { ny };
    let sc = if b0 & 0x80 == 0 {
        Cat::Compression
    } else if b0 & 0x40 != 0 {
        if b0 & 0x3f == 0 && bl == 0 && bt == 0 { Cat::OkInf } else { Cat::Information }
    } else if b0 & 0x1f > 0x1a || bt > 0x1a {
        Cat::Coordinate
    } else if unsafe { !SQRT_SOME } {
        Cat::NotOnCurve
    } else {
        Cat::OkPoint
    };
    let got = enc.into_affine_unchecked();
    let inf = match &got { Ok(p) => p.is_zero(), _ => false };
    assert!(cat(&got, inf) == sc);
    if let Ok(p) = &got {
        if !inf {
            let (_, py, _) = p.verif_raw();
            assert!(raw2(&py) == ysel);
        }
    }
    kani::cover!(sc == Cat::OkPoint && greatest, "sort flag honoured");
    std::mem::forget(got);
}
}

common_stubs! { 98,
fn g2_sort_flag_rule() {
    // encoder side of the sort flag for G2: flag set iff y > -y in the lexicographic order (c1 most significant, tie-break on c0)
    let mut y = [[0u64; 6]; 2];
    y[0] = kani::any();
    y[1][0] = kani::any();
    let c1_zero: bool = kani::any();
    if c1_zero {
        y[1][0] = 0;
    }
    // the boundary of "y > -y": the u-coefficient exactly (q-1)/2 or (q+1)/2 (its negative), the real part arbitrary
    let c1_half: u8 = kani::any();
    if c1_half == 1 {
        y[1] = HALF_Q;
    } else if c1_half == 2 {
        y[1] = neg(&HALF_Q);
    }
    kani::assume(lt(&y[0], &Q) && !(is0(&y[0]) && is0(&y[1])));
    let p = G2Affine::verif_from_raw(mkfq2([[0u64; 6]; 2]), mkfq2(y), false);
    let c = G2Compressed::from_affine(p);
    let ny = [neg(&y[0]), neg(&y[1])];
    let want_flag = lt2(&ny, &y);
    assert!((c.as_ref()[0] & 0x20 != 0) == want_flag);
    assert!(c.as_ref()[0] & 0xc0 == 0x80);
    let u = G2Uncompressed::from_affine(p);
    assert!(u.as_ref()[0] & 0xe0 == 0);
    kani::cover!(c1_zero && want_flag, "tie-break on c0 decides and the flag is set");
}
}

// the CHECKED G2 decoders on the flag byte alone (everything else zero, square root fixed): an encoding the unchecked decoder accepts --
// with either value of the sort flag, infinity included -- is accepted by the checked one exactly when the subgroup oracle says so
common_stubs! { 98,
fn g2_compressed_checked_b0() {
    let b0: u8 = kani::any();
    unsafe {
        INSUB = kani::any();
        SQRT_SOME = kani::any();
        SQRT_Y2 = [[0u64; 6]; 2];
        SQRT_Y2[0][0] = 5;
    }
    let mut enc = G2Compressed::empty();
    enc.as_mut()[0] = b0;
    let sc = if b0 & 0x80 == 0 {
        Cat::Compression
    } else if b0 & 0x40 != 0 {
        if b0 & 0x3f == 0 { Cat::OkInf } else { Cat::Information }
    } else if b0 & 0x1f > 0x1a {
        Cat::Coordinate
    } else if unsafe { !SQRT_SOME } {
        Cat::NotOnCurve
    } else {
        Cat::OkPoint
    };
    let want = if (sc == Cat::OkInf || sc == Cat::OkPoint) && unsafe { !INSUB } { Cat::NotInSubgroup } else { sc };
    let chk = enc.into_affine();
    let cinf = match &chk { Ok(q) => q.is_zero(), _ => false };
    assert!(cat(&chk, cinf) == want);
    kani::cover!(want == Cat::NotInSubgroup && b0 & 0x20 != 0, "rejected by the subgroup oracle with the sort flag set");
    std::mem::forget(chk);
}
}
