//! Kani harnesses over the real pairing-plus crate (feature `verif`).  One module per property.
#![allow(dead_code, unused_imports, unused_variables, non_snake_case)]
#![recursion_limit = "512"]
extern crate ff_zeroize as ff;
extern crate pairing_plus as pp;
extern crate alloc;

pub mod toyref;
#[cfg(kani)]
mod c01;
#[cfg(kani)]
mod c08;
#[cfg(kani)]
mod c04;
#[cfg(kani)]
mod c18;
#[cfg(kani)]
mod c13;
#[cfg(kani)]
mod c19;
