//! C08 K-bits: the real FqRepr / FrRepr integer operations and the non-multiplicative Fq / Fr operations,
//! bit-precisely, against carry-chain references written here with u128 (no multiplication).
use ff::{Field, PrimeField, PrimeFieldRepr};
use pp::bls12_381::{Fq, FqRepr, Fr, FrRepr};

// independent modulus literals (BLS12-381 specification), little-endian 64-bit limbs
pub const Q: [u64; 6] = [
    0xb9feffffffffaaab, 0x1eabfffeb153ffff, 0x6730d2a0f6b0f624, 0x64774b84f38512bf, 0x4b1ba7b6434bacd7, 0x1a0111ea397fe69a,
];
pub const R: [u64; 4] = [0xffffffff00000001, 0x53bda402fffe5bfe, 0x3339d80809a1d805, 0x73eda753299d7d48];

fn ref_add<const N: usize>(a: &[u64; N], b: &[u64; N]) -> ([u64; N], bool) {
    let mut out = [0u64; N];
    let mut carry = 0u128;
    let mut i = 0;
    while i < N {
        let t = a[i] as u128 + b[i] as u128 + carry;
        out[i] = t as u64;
        carry = t >> 64;
        i += 1;
    }
    (out, carry != 0)
}
fn ref_sub<const N: usize>(a: &[u64; N], b: &[u64; N]) -> ([u64; N], bool) {
    let mut out = [0u64; N];
    let mut borrow = 0i128;
    let mut i = 0;
    while i < N {
        let t = a[i] as i128 - b[i] as i128 - borrow;
        if t < 0 {
            out[i] = (t + (1i128 << 64)) as u64;
            borrow = 1;
        } else {
            out[i] = t as u64;
            borrow = 0;
        }
        i += 1;
    }
    (out, borrow != 0)
}
fn ref_lt<const N: usize>(a: &[u64; N], b: &[u64; N]) -> bool {
    let mut i = N;
    while i > 0 {
        i -= 1;
        if a[i] < b[i] {
            return true;
        }
        if a[i] > b[i] {
            return false;
        }
    }
    false
}
fn ref_bit<const N: usize>(a: &[u64; N], i: usize) -> bool {
    if i >= 64 * N {
        false
    } else {
        (a[i / 64] >> (i % 64)) & 1 == 1
    }
}

macro_rules! repr_harnesses {
    ($m:ident, $repr:ident, $n:expr, $unw:expr, $unws:expr) => {
        mod $m {
            use super::*;
            fn any() -> $repr {
                let l: [u64; $n] = kani::any();
                $repr(l)
            }
            #[kani::proof]
            #[kani::unwind($unw)]
            fn add_sub() {
                let (a, b) = (any(), any());
                let mut c = a;
                c.add_nocarry(&b);
                let (want, carry) = ref_add::<$n>(&a.0, &b.0);
                assert!(c.0 == want); // = a + b mod 2^(64 N); exact integer sum whenever the no-carry precondition holds
                let mut d = a;
                d.sub_noborrow(&b);
                let (wants, borrow) = ref_sub::<$n>(&a.0, &b.0);
                assert!(d.0 == wants);
                assert!(borrow == ref_lt::<$n>(&a.0, &b.0));
                kani::cover!(carry && borrow, "carry and borrow cases reachable");
            }
            #[kani::proof]
            #[kani::unwind($unw)]
            fn mul2_div2_parity_zero_cmp() {
                let a = any();
                let mut c = a;
                c.mul2();
                let (want, _) = ref_add::<$n>(&a.0, &a.0);
                assert!(c.0 == want);
                let mut d = a;
                d.div2();
                // d = floor(a / 2): 2 d + (a mod 2) = a
                let (twice, carry) = ref_add::<$n>(&d.0, &d.0);
                let mut back = twice;
                back[0] |= a.0[0] & 1;
                assert!(!carry && back == a.0 && (twice[0] & 1) == 0);
                assert!(a.is_odd() == (a.0[0] & 1 == 1) && a.is_even() == !a.is_odd());
                let mut z = true;
                let mut i = 0;
                while i < $n {
                    z &= a.0[i] == 0;
                    i += 1;
                }
                assert!(a.is_zero() == z);
                let b = any();
                use std::cmp::Ordering;
                let o = a.cmp(&b);
                assert!((o == Ordering::Less) == ref_lt::<$n>(&a.0, &b.0));
                assert!((o == Ordering::Greater) == ref_lt::<$n>(&b.0, &a.0));
                assert!((a == b) == (o == Ordering::Equal));
                let w: u64 = kani::any();
                let f = $repr::from(w);
                assert!(f.0[0] == w);
                i = 1;
                while i < $n {
                    assert!(f.0[i] == 0);
                    i += 1;
                }
            }
            #[kani::proof]
            #[kani::unwind($unws)]
            fn shifts_and_num_bits() {
                let a = any();
                let n: u32 = kani::any();
                kani::assume(n <= 64 * $n + 5);
                let mut l = a;
                l.shl(n);
                let mut r = a;
                r.shr(n);
                let j: usize = kani::any();
                kani::assume(j < 64 * $n);
                // bit j of (a << n) is bit j-n of a; bit j of (a >> n) is bit j+n of a
                let want_l = if (n as usize) <= j { ref_bit::<$n>(&a.0, j - n as usize) } else { false };
                assert!(ref_bit::<$n>(&l.0, j) == want_l);
                assert!(ref_bit::<$n>(&r.0, j) == ref_bit::<$n>(&a.0, j + n as usize));
                // num_bits = position of the highest set bit + 1
                let nb = a.num_bits() as usize;
                assert!(nb <= 64 * $n);
                assert!(nb == 0 || ref_bit::<$n>(&a.0, nb - 1));
                assert!(j < nb || !ref_bit::<$n>(&a.0, j));
                kani::cover!(n > 64 && n % 64 != 0, "multi-limb shift with remainder");
            }
            #[kani::proof]
            #[kani::unwind($unw)]
            fn endian_io() {
                let a = any();
                let mut be = [0u8; 8 * $n];
                let mut le = [0u8; 8 * $n];
                a.write_be(&mut be[..]).unwrap();
                a.write_le(&mut le[..]).unwrap();
                let k: usize = kani::any();
                kani::assume(k < 8 * $n);
                // byte k of the little-endian form is bits 8k..8k+7; big-endian is its reversal
                let want = (a.0[k / 8] >> (8 * (k % 8))) as u8;
                assert!(le[k] == want);
                assert!(be[8 * $n - 1 - k] == want);
                let mut b = $repr::from(0);
                b.read_be(&be[..]).unwrap();
                assert!(b == a);
                let mut c = $repr::from(0);
                c.read_le(&le[..]).unwrap();
                assert!(c == a);
            }
        }
    };
}
repr_harnesses!(fq_repr, FqRepr, 6, 50, 9);
repr_harnesses!(fr_repr, FrRepr, 4, 50, 7);

macro_rules! field_harnesses {
    ($m:ident, $f:ident, $repr:ident, $n:expr, $modulus:ident, $tr:path, $unw:expr) => {
        mod $m {
            use super::*;
            fn raw(x: &$f) -> [u64; $n] {
                unsafe { std::mem::transmute::<$f, [u64; $n]>(*x) }
            }
            fn any_reduced() -> ($f, [u64; $n]) {
                let l: [u64; $n] = kani::any();
                kani::assume(ref_lt::<$n>(&l, &$modulus));
                (unsafe { $tr($repr(l)) }, l)
            }
            fn addmod(a: &[u64; $n], b: &[u64; $n]) -> [u64; $n] {
                let (s, carry) = ref_add::<$n>(a, b);
                if carry || !ref_lt::<$n>(&s, &$modulus) {
                    ref_sub::<$n>(&s, &$modulus).0
                } else {
                    s
                }
            }
            #[kani::proof]
            #[kani::unwind($unw)]
            fn add_double() {
                let ((a, la), (b, lb)) = (any_reduced(), any_reduced());
                let mut c = a;
                c.add_assign(&b);
                let want = addmod(&la, &lb);
                assert!(raw(&c) == want && ref_lt::<$n>(&want, &$modulus));
                let mut d = a;
                d.double();
                assert!(raw(&d) == addmod(&la, &la));
            }
            #[kani::proof]
            #[kani::unwind($unw)]
            fn sub_negate_zero() {
                let ((a, la), (b, lb)) = (any_reduced(), any_reduced());
                let mut c = a;
                c.sub_assign(&b);
                // c + b = a (mod modulus), c reduced
                assert!(ref_lt::<$n>(&raw(&c), &$modulus));
                assert!(addmod(&raw(&c), &lb) == la);
                let mut n = a;
                n.negate();
                assert!(ref_lt::<$n>(&raw(&n), &$modulus));
                assert!(addmod(&raw(&n), &la) == [0u64; $n]);
                assert!(a.is_zero() == (la == [0u64; $n]));
                assert!(raw(&$f::zero()) == [0u64; $n]);
                assert!((a == b) == (la == lb));
            }
            #[kani::proof]
            #[kani::unwind($unw)]
            fn modulus_literal() {
                assert!($f::char().0 == $modulus);
            }
        }
    };
}
field_harnesses!(fq, Fq, FqRepr, 6, Q, pp::bls12_381::transmute::fq, 50);
field_harnesses!(fr, Fr, FrRepr, 4, R, pp::bls12_381::transmute::fr, 50);

// from_repr accepts exactly the values below the modulus.  The Montgomery multiplication by R^2 on the Ok path does not
// influence acceptance and is stubbed out (its value is the subject of the S-lia part); the error path formats the value
// with format!, stubbed to keep string formatting out of the formula.
fn stub_mul_fq(_a: &mut Fq, _b: &Fq) {}
fn stub_mul_fr(_a: &mut Fr, _b: &Fr) {}
fn stub_format(_a: std::fmt::Arguments<'_>) -> String {
    String::new()
}

#[kani::proof]
#[kani::unwind(8)]
#[kani::stub(<pairing_plus::bls12_381::Fq as ff_zeroize::Field>::mul_assign, stub_mul_fq)]
#[kani::stub(alloc::fmt::format, stub_format)]
fn fq_from_repr_acceptance() {
    let l: [u64; 6] = kani::any();
    let r = Fq::from_repr(FqRepr(l));
    assert!(r.is_ok() == ref_lt::<6>(&l, &Q));
    kani::cover!(r.is_ok(), "accepting path");
    std::mem::forget(r);
}
#[kani::proof]
#[kani::unwind(6)]
#[kani::stub(<pairing_plus::bls12_381::Fr as ff_zeroize::Field>::mul_assign, stub_mul_fr)]
#[kani::stub(alloc::fmt::format, stub_format)]
fn fr_from_repr_acceptance() {
    let l: [u64; 4] = kani::any();
    let r = Fr::from_repr(FrRepr(l));
    assert!(r.is_ok() == ref_lt::<4>(&l, &R));
    kani::cover!(r.is_ok(), "accepting path");
    std::mem::forget(r);
}
