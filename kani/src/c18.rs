//! C18 K-bits: sgn0, conditional negation, ordering on Fq and Fq2 (real code; Fq::into_repr stubbed to the identity so an
//! Fq holds its canonical integer -- the Montgomery reduction itself is C08's S-lia part).
use crate::c04::{stub_into_repr};
use crate::c08::Q;
use ff::Field;
use pp::bls12_381::{Fq, Fq2, FqRepr};
use pp::signum::{Sgn0Result, Signum0};
use std::cmp::Ordering;

fn lt(a: &[u64; 6], b: &[u64; 6]) -> bool {
    let mut i = 6;
    while i > 0 {
        i -= 1;
        if a[i] < b[i] {
            return true;
        }
        if a[i] > b[i] {
            return false;
        }
    }
    false
}
fn is0(a: &[u64; 6]) -> bool {
    a[0] | a[1] | a[2] | a[3] | a[4] | a[5] == 0
}
fn mkfq(l: [u64; 6]) -> Fq {
    unsafe { pp::bls12_381::transmute::fq(FqRepr(l)) }
}
fn raw(x: &Fq) -> [u64; 6] {
    unsafe { std::mem::transmute::<Fq, [u64; 6]>(*x) }
}
fn any_fq() -> ([u64; 6], Fq) {
    let l: [u64; 6] = kani::any();
    kani::assume(lt(&l, &Q));
    (l, mkfq(l))
}
fn neg_is(s: &Sgn0Result) -> bool {
    *s == Sgn0Result::Negative
}

#[kani::proof]
#[kani::unwind(8)]
#[kani::stub(<pairing_plus::bls12_381::Fq as ff_zeroize::PrimeField>::into_repr, stub_into_repr)]
fn fq_sgn0_order_negation() {
    let (la, a) = any_fq();
    let (lb, b) = any_fq();
    // sgn0 = parity of the canonical integer
    assert!(neg_is(&a.sgn0()) == (la[0] & 1 == 1));
    // order = integer order
    let o = a.cmp(&b);
    assert!((o == Ordering::Less) == lt(&la, &lb) && (o == Ordering::Greater) == lt(&lb, &la));
    assert!((a < b) == lt(&la, &lb) && (a > b) == lt(&lb, &la));
    // for y != 0: exactly one of y, -y is the larger, and their sgn0 differ
    let mut na = a;
    na.negate();
    if !is0(&la) {
        assert!((a > na) != (na > a));
        assert!(neg_is(&a.sgn0()) != neg_is(&na.sgn0()));
    } else {
        assert!(is0(&raw(&na)));
    }
    // negate_if negates exactly on Negative
    let mut c = a;
    c.negate_if(Sgn0Result::Negative);
    let mut d = a;
    d.negate_if(Sgn0Result::NonNegative);
    let mut i = 0;
    while i < 6 {
        assert!(raw(&c)[i] == raw(&na)[i] && raw(&d)[i] == la[i]);
        i += 1;
    }
    kani::cover!(!is0(&la) && a > na, "y larger than -y");
}

#[kani::proof]
#[kani::unwind(8)]
#[kani::stub(<pairing_plus::bls12_381::Fq as ff_zeroize::PrimeField>::into_repr, stub_into_repr)]
fn fq2_sgn0_order() {
    let (a0, fa0) = any_fq();
    let (a1, fa1) = any_fq();
    let (b0, fb0) = any_fq();
    let (b1, fb1) = any_fq();
    let a = Fq2 { c0: fa0, c1: fa1 };
    let b = Fq2 { c0: fb0, c1: fb1 };
    // sgn0: parity of c0 unless c0 = 0, then parity of c1
    let want = if is0(&a0) { a1[0] & 1 == 1 } else { a0[0] & 1 == 1 };
    assert!(neg_is(&a.sgn0()) == want);
    // lexicographic order, u-coefficient (c1) most significant
    let less = lt(&a1, &b1) || (!lt(&b1, &a1) && lt(&a0, &b0));
    let greater = lt(&b1, &a1) || (!lt(&a1, &b1) && lt(&b0, &a0));
    let o = a.cmp(&b);
    assert!((o == Ordering::Less) == less && (o == Ordering::Greater) == greater);
    assert!((a < b) == less && (a > b) == greater);
    // exactly one of y, -y is larger for y != 0
    let mut na = a;
    na.negate();
    if !(is0(&a0) && is0(&a1)) {
        assert!((a > na) != (na > a));
    }
    kani::cover!(is0(&a0) && !is0(&a1), "purely imaginary element");
}

#[kani::proof]
fn sgn0result_xor_table() {
    let x: bool = kani::any();
    let y: bool = kani::any();
    let f = |b: bool| if b { Sgn0Result::Negative } else { Sgn0Result::NonNegative };
    assert!(neg_is(&(f(x) ^ f(y))) == (x != y));
}
