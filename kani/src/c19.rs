//! C19 K-bits: SerDes for Fr, Fq12, G1, G1Affine, G2Affine over `&[u8]` readers and `Vec<u8>` writers.
//! Point decoders / encoders are replaced by oracles that respect only their types (what they really do is C04 / C05), so
//! that every decoder verdict is explored; field multiplications are no-ops and into_repr the identity as in c04.
//! Stream LENGTHS are concrete (boundary grid); stream CONTENTS and the `compressed` flag are symbolic.
use crate::c04::{stub_format, stub_into_repr, stub_noop_mul};
use crate::c08::{Q, R};
use pp::bls12_381::{Fq, Fq12, FqRepr, Fr, FrRepr, G1Affine, G1Compressed, G1Uncompressed, G2Affine, G2Compressed, G2Uncompressed, G1, G2};
use pp::serdes::SerDes;
use pp::{CurveAffine, CurveProjective, EncodedPoint, GroupDecodingError};

pub static mut DEC_OK: bool = false;
pub static mut DEC_SEEN: [u8; 192] = [0; 192];
pub static mut DEC_CALLS: u8 = 0;
pub static mut DEC_KIND: u8 = 0;
pub static mut ENC_BYTES: [u8; 192] = [0; 192];

fn oracle_g1() -> Result<G1Affine, GroupDecodingError> {
    unsafe {
        if DEC_OK {
            Ok(G1Affine::one())
        } else {
            Err(GroupDecodingError::NotInSubgroup)
        }
    }
}
fn oracle_g2() -> Result<G2Affine, GroupDecodingError> {
    unsafe {
        if DEC_OK {
            Ok(G2Affine::one())
        } else {
            Err(GroupDecodingError::NotOnCurve)
        }
    }
}
fn see(b: &[u8], kind: u8) {
    unsafe {
        DEC_CALLS += 1;
        DEC_KIND = kind;
        let mut i = 0;
        while i < b.len() && i < 192 {
            DEC_SEEN[i] = b[i];
            i += 1;
        }
    }
}
pub fn dec_g1c(e: &G1Compressed) -> Result<G1Affine, GroupDecodingError> {
    see(e.as_ref(), 1);
    oracle_g1()
}
pub fn dec_g1u(e: &G1Uncompressed) -> Result<G1Affine, GroupDecodingError> {
    see(e.as_ref(), 2);
    oracle_g1()
}
pub fn dec_g2c(e: &G2Compressed) -> Result<G2Affine, GroupDecodingError> {
    see(e.as_ref(), 3);
    oracle_g2()
}
pub fn dec_g2u(e: &G2Uncompressed) -> Result<G2Affine, GroupDecodingError> {
    see(e.as_ref(), 4);
    oracle_g2()
}
// the UNCHECKED decoders (no subgroup test) must never be what a deserializer calls: kinds 11..14
pub fn dec_g1c_unchecked(e: &G1Compressed) -> Result<G1Affine, GroupDecodingError> {
    see(e.as_ref(), 11);
    oracle_g1()
}
pub fn dec_g1u_unchecked(e: &G1Uncompressed) -> Result<G1Affine, GroupDecodingError> {
    see(e.as_ref(), 12);
    oracle_g1()
}
pub fn dec_g2c_unchecked(e: &G2Compressed) -> Result<G2Affine, GroupDecodingError> {
    see(e.as_ref(), 13);
    oracle_g2()
}
pub fn dec_g2u_unchecked(e: &G2Uncompressed) -> Result<G2Affine, GroupDecodingError> {
    see(e.as_ref(), 14);
    oracle_g2()
}
pub fn enc_g1c(_p: G1Affine) -> G1Compressed {
    let mut e = G1Compressed::empty();
    let mut i = 0;
    while i < 48 {
        e.as_mut()[i] = unsafe { ENC_BYTES[i] };
        i += 1;
    }
    e
}
pub fn enc_g1u(_p: G1Affine) -> G1Uncompressed {
    let mut e = G1Uncompressed::empty();
    let mut i = 0;
    while i < 96 {
        e.as_mut()[i] = unsafe { ENC_BYTES[i] };
        i += 1;
    }
    e
}

pub fn enc_g2c(_p: G2Affine) -> G2Compressed {
    let mut e = G2Compressed::empty();
    let mut i = 0;
    while i < 96 {
        e.as_mut()[i] = unsafe { ENC_BYTES[i] };
        i += 1;
    }
    e
}
pub fn enc_g2u(_p: G2Affine) -> G2Uncompressed {
    let mut e = G2Uncompressed::empty();
    let mut i = 0;
    while i < 192 {
        e.as_mut()[i] = unsafe { ENC_BYTES[i] };
        i += 1;
    }
    e
}

macro_rules! point_stubs {
    ($unw:expr, $item:item) => {
        #[kani::proof]
        #[kani::unwind($unw)]
        #[kani::stub(<pairing_plus::bls12_381::G1Compressed as pairing_plus::EncodedPoint>::into_affine, dec_g1c)]
        #[kani::stub(<pairing_plus::bls12_381::G1Uncompressed as pairing_plus::EncodedPoint>::into_affine, dec_g1u)]
        #[kani::stub(<pairing_plus::bls12_381::G2Compressed as pairing_plus::EncodedPoint>::into_affine, dec_g2c)]
        #[kani::stub(<pairing_plus::bls12_381::G2Uncompressed as pairing_plus::EncodedPoint>::into_affine, dec_g2u)]
        #[kani::stub(<pairing_plus::bls12_381::G1Compressed as pairing_plus::EncodedPoint>::into_affine_unchecked, dec_g1c_unchecked)]
        #[kani::stub(<pairing_plus::bls12_381::G1Uncompressed as pairing_plus::EncodedPoint>::into_affine_unchecked, dec_g1u_unchecked)]
        #[kani::stub(<pairing_plus::bls12_381::G2Compressed as pairing_plus::EncodedPoint>::into_affine_unchecked, dec_g2c_unchecked)]
        #[kani::stub(<pairing_plus::bls12_381::G2Uncompressed as pairing_plus::EncodedPoint>::into_affine_unchecked, dec_g2u_unchecked)]
        #[kani::stub(<pairing_plus::bls12_381::G1Compressed as pairing_plus::EncodedPoint>::from_affine, enc_g1c)]
        #[kani::stub(<pairing_plus::bls12_381::G1Uncompressed as pairing_plus::EncodedPoint>::from_affine, enc_g1u)]
        #[kani::stub(<pairing_plus::bls12_381::G2Compressed as pairing_plus::EncodedPoint>::from_affine, enc_g2c)]
        #[kani::stub(<pairing_plus::bls12_381::G2Uncompressed as pairing_plus::EncodedPoint>::from_affine, enc_g2u)]
        #[kani::stub(alloc::fmt::format, stub_format)]
        $item
    };
}

/// G1Affine::deserialize from a stream of LEN symbolic bytes
macro_rules! g1_affine_de {
    ($name:ident, $len:expr) => {
        point_stubs! { 100,
        fn $name() {
            let data: [u8; $len] = kani::any();
            let compressed: bool = kani::any();
            unsafe { DEC_OK = kani::any(); DEC_CALLS = 0; }
            let mut reader: &[u8] = &data[..];
            let r = <G1Affine as SerDes>::deserialize(&mut reader, compressed);
            let left = reader.len();
            let need: usize = if compressed { 48 } else { 96 };
            let flag_ok = $len >= 48 && ((data[0] & 0x80 != 0) == compressed);
            if $len < 48 || !flag_ok || $len < need {
                assert!(r.is_err());
                assert!(unsafe { DEC_CALLS } == 0);
            } else {
                assert!(unsafe { DEC_CALLS } == 1 && unsafe { DEC_KIND } == if compressed { 1 } else { 2 });
                assert!(r.is_ok() == unsafe { DEC_OK });
                assert!(left == $len - need);      // consumes exactly the encoding
                let mut i = 0;
                while i < need {
                    assert!(unsafe { DEC_SEEN[i] } == data[i]);     // the decoder sees exactly the stream bytes, in order
                    i += 1;
                }
                if let Ok(p) = &r {
                    assert!(*p == G1Affine::one());
                }
            }
            std::mem::forget(r);
        }
        }
    };
}
g1_affine_de!(g1_affine_de_0, 0);
g1_affine_de!(g1_affine_de_47, 47);
g1_affine_de!(g1_affine_de_48, 48);
g1_affine_de!(g1_affine_de_49, 49);
g1_affine_de!(g1_affine_de_95, 95);
g1_affine_de!(g1_affine_de_96, 96);
g1_affine_de!(g1_affine_de_97, 97);

macro_rules! g2_affine_de {
    ($name:ident, $len:expr) => {
        point_stubs! { 196,
        fn $name() {
            let data: [u8; $len] = kani::any();
            let compressed: bool = kani::any();
            unsafe { DEC_OK = kani::any(); DEC_CALLS = 0; }
            let mut reader: &[u8] = &data[..];
            let r = <G2Affine as SerDes>::deserialize(&mut reader, compressed);
            let left = reader.len();
            let need: usize = if compressed { 96 } else { 192 };
            let flag_ok = $len >= 96 && ((data[0] & 0x80 != 0) == compressed);
            if $len < 96 || !flag_ok || $len < need {
                assert!(r.is_err());
                assert!(unsafe { DEC_CALLS } == 0);
            } else {
                assert!(unsafe { DEC_CALLS } == 1 && unsafe { DEC_KIND } == if compressed { 3 } else { 4 });
                assert!(r.is_ok() == unsafe { DEC_OK });
                assert!(left == $len - need);
                let mut i = 0;
                while i < need {
                    assert!(unsafe { DEC_SEEN[i] } == data[i]);
                    i += 1;
                }
            }
            std::mem::forget(r);
        }
        }
    };
}
g2_affine_de!(g2_affine_de_95, 95);
g2_affine_de!(g2_affine_de_96, 96);
g2_affine_de!(g2_affine_de_191, 191);
g2_affine_de!(g2_affine_de_193, 193);

point_stubs! { 100,
fn g1_projective_de_and_ser() {
    // projective G1: same wire form as the affine point of into_affine()
    let data: [u8; 97] = kani::any();
    let compressed: bool = kani::any();
    unsafe { DEC_OK = kani::any(); DEC_CALLS = 0; ENC_BYTES = kani::any(); }
    let mut reader: &[u8] = &data[..];
    let r = <G1 as SerDes>::deserialize(&mut reader, compressed);
    let need: usize = if compressed { 48 } else { 96 };
    if (data[0] & 0x80 != 0) != compressed {
        assert!(r.is_err() && unsafe { DEC_CALLS } == 0);
    } else {
        assert!(unsafe { DEC_CALLS } == 1 && unsafe { DEC_KIND } == if compressed { 1 } else { 2 });
        assert!(r.is_ok() == unsafe { DEC_OK } && reader.len() == 97 - need);
        if let Ok(p) = &r {
            assert!(*p == G1::one());
        }
    }
    // serialize writes exactly the encoder's bytes: 48 or 96
    let mut out: Vec<u8> = Vec::new();
    let s = G1Affine::one().serialize(&mut out, compressed);
    assert!(s.is_ok() && out.len() == need);
    let mut i = 0;
    while i < need {
        assert!(out[i] == unsafe { ENC_BYTES[i] });
        i += 1;
    }
    std::mem::forget(r);
    std::mem::forget(s);
    std::mem::forget(out);
}
}

/// G2 (projective) deserialize from a stream of LEN symbolic bytes: same contract as the affine form
macro_rules! g2_projective_de {
    ($name:ident, $len:expr) => {
        point_stubs! { 196,
        fn $name() {
            let data: [u8; $len] = kani::any();
            let compressed: bool = kani::any();
            unsafe { DEC_OK = kani::any(); DEC_CALLS = 0; }
            let mut reader: &[u8] = &data[..];
            let r = <G2 as SerDes>::deserialize(&mut reader, compressed);
            let left = reader.len();
            let need: usize = if compressed { 96 } else { 192 };
            let flag_ok = $len >= 96 && ((data[0] & 0x80 != 0) == compressed);
            if $len < 96 || !flag_ok || $len < need {
                assert!(r.is_err());
                assert!(unsafe { DEC_CALLS } == 0);
            } else {
                assert!(unsafe { DEC_CALLS } == 1 && unsafe { DEC_KIND } == if compressed { 3 } else { 4 });
                assert!(r.is_ok() == unsafe { DEC_OK });
                assert!(left == $len - need);
                let mut i = 0;
                while i < need {
                    assert!(unsafe { DEC_SEEN[i] } == data[i]);
                    i += 1;
                }
            }
            std::mem::forget(r);
        }
        }
    };
}
g2_projective_de!(g2_projective_de_95, 95);
g2_projective_de!(g2_projective_de_97, 97);
g2_projective_de!(g2_projective_de_191, 191);
g2_projective_de!(g2_projective_de_193, 193);

/// G1 projective deserialize on truncated / exact streams (the affine macro above covers G1Affine)
macro_rules! g1_projective_de {
    ($name:ident, $len:expr) => {
        point_stubs! { 100,
        fn $name() {
            let data: [u8; $len] = kani::any();
            let compressed: bool = kani::any();
            unsafe { DEC_OK = kani::any(); DEC_CALLS = 0; }
            let mut reader: &[u8] = &data[..];
            let r = <G1 as SerDes>::deserialize(&mut reader, compressed);
            let left = reader.len();
            let need: usize = if compressed { 48 } else { 96 };
            let flag_ok = $len >= 48 && ((data[0] & 0x80 != 0) == compressed);
            if $len < 48 || !flag_ok || $len < need {
                assert!(r.is_err());
                assert!(unsafe { DEC_CALLS } == 0);
            } else {
                assert!(unsafe { DEC_CALLS } == 1 && unsafe { DEC_KIND } == if compressed { 1 } else { 2 });
                assert!(r.is_ok() == unsafe { DEC_OK } && left == $len - need);
                let mut i = 0;
                while i < need {
                    assert!(unsafe { DEC_SEEN[i] } == data[i]);
                    i += 1;
                }
            }
            std::mem::forget(r);
        }
        }
    };
}
g1_projective_de!(g1_projective_de_47, 47);
g1_projective_de!(g1_projective_de_95, 95);
g1_projective_de!(g1_projective_de_96, 96);

point_stubs! { 196,
fn serialize_all_point_types() {
    // serialize writes exactly the encoder's bytes (48/96 for G1, 96/192 for G2), projective = affine form of into_affine()
    let compressed: bool = kani::any();
    unsafe { ENC_BYTES = kani::any(); }
    let n1: usize = if compressed { 48 } else { 96 };
    let n2: usize = if compressed { 96 } else { 192 };
    let mut o1: Vec<u8> = Vec::new();
    let mut o2: Vec<u8> = Vec::new();
    let mut o3: Vec<u8> = Vec::new();
    let mut o4: Vec<u8> = Vec::new();
    let s1 = G1::one().serialize(&mut o1, compressed);
    let s2 = G1Affine::one().serialize(&mut o2, compressed);
    let s3 = G2::one().serialize(&mut o3, compressed);
    let s4 = G2Affine::one().serialize(&mut o4, compressed);
    assert!(s1.is_ok() && s2.is_ok() && s3.is_ok() && s4.is_ok());
    assert!(o1.len() == n1 && o2.len() == n1 && o3.len() == n2 && o4.len() == n2);
    let mut i = 0;
    while i < n2 {
        if i < n1 {
            assert!(o1[i] == unsafe { ENC_BYTES[i] } && o2[i] == unsafe { ENC_BYTES[i] });
        }
        assert!(o3[i] == unsafe { ENC_BYTES[i] } && o4[i] == unsafe { ENC_BYTES[i] });
        i += 1;
    }
    std::mem::forget((s1, s2, s3, s4));
    std::mem::forget((o1, o2, o3, o4));
}
}

// ---------------------------------------------------------------- Fr and Fq12
fn ltn<const N: usize>(a: &[u64; N], b: &[u64; N]) -> bool {
    let mut i = N;
    while i > 0 {
        i -= 1;
        if a[i] < b[i] {
            return true;
        }
        if a[i] > b[i] {
            return false;
        }
    }
    false
}
fn be<const N: usize>(b: &[u8], off: usize) -> [u64; N] {
    let mut out = [0u64; N];
    let mut i = 0;
    while i < 8 * N {
        let pos = 8 * N - 1 - i;
        out[pos / 8] |= (b[off + i] as u64) << (8 * (pos % 8));
        i += 1;
    }
    out
}
pub fn stub_noop_mul_fr(_a: &mut Fr, _b: &Fr) {}
pub fn stub_into_repr_fr(a: &Fr) -> FrRepr {
    FrRepr(unsafe { std::mem::transmute::<Fr, [u64; 4]>(*a) })
}

macro_rules! fr_de {
    ($name:ident, $len:expr) => {
        #[kani::proof]
        #[kani::unwind(40)]
        #[kani::stub(<pairing_plus::bls12_381::Fr as ff_zeroize::Field>::mul_assign, stub_noop_mul_fr)]
        #[kani::stub(<pairing_plus::bls12_381::Fr as ff_zeroize::PrimeField>::into_repr, stub_into_repr_fr)]
        #[kani::stub(alloc::fmt::format, stub_format)]
        fn $name() {
            let data: [u8; $len] = kani::any();
            let flag: bool = kani::any();
            let mut reader: &[u8] = &data[..];
            let r = <Fr as SerDes>::deserialize(&mut reader, flag);
            if $len < 32 {
                assert!(r.is_err());
            } else {
                let v = be::<4>(&data, 0);
                assert!(r.is_ok() == ltn::<4>(&v, &R));
                assert!(reader.len() == $len - 32);
                if let Ok(x) = &r {
                    let raw = unsafe { std::mem::transmute::<Fr, [u64; 4]>(*x) };
                    let mut i = 0;
                    while i < 4 {
                        assert!(raw[i] == v[i]);
                        i += 1;
                    }
                    // round trip: serialize writes the same 32 bytes
                    let mut out: Vec<u8> = Vec::new();
                    let s = x.serialize(&mut out, flag);
                    assert!(s.is_ok() && out.len() == 32);
                    i = 0;
                    while i < 32 {
                        assert!(out[i] == data[i]);
                        i += 1;
                    }
                    std::mem::forget(s);
                    std::mem::forget(out);
                }
            }
            std::mem::forget(r);
        }
    };
}
fr_de!(fr_de_0, 0);
fr_de!(fr_de_31, 31);
fr_de!(fr_de_32, 32);
fr_de!(fr_de_33, 33);

macro_rules! fq12_de {
    ($name:ident, $len:expr) => {
        #[kani::proof]
        #[kani::unwind(60)]
        #[kani::stub(<pairing_plus::bls12_381::Fq as ff_zeroize::Field>::mul_assign, stub_noop_mul)]
        #[kani::stub(<pairing_plus::bls12_381::Fq as ff_zeroize::PrimeField>::into_repr, stub_into_repr)]
        #[kani::stub(alloc::fmt::format, stub_format)]
        fn $name() {
            let data: [u8; $len] = kani::any();
            let mut reader: &[u8] = &data[..];
            let r = <Fq12 as SerDes>::deserialize(&mut reader, false);
            if $len < 576 {
                assert!(r.is_err());
            } else {
                let mut all = true;
                let mut k = 0;
                while k < 12 {
                    all &= ltn::<6>(&be::<6>(&data, 48 * k), &Q);
                    k += 1;
                }
                assert!(r.is_ok() == all);
                if let Ok(x) = &r {
                    assert!(reader.len() == $len - 576);
                    // coefficient order on the wire: c0.c0.c0, c0.c0.c1, c0.c1.c0, ..., c1.c2.c1
                    let cs = [x.c0.c0.c0, x.c0.c0.c1, x.c0.c1.c0, x.c0.c1.c1, x.c0.c2.c0, x.c0.c2.c1, x.c1.c0.c0, x.c1.c0.c1, x.c1.c1.c0, x.c1.c1.c1, x.c1.c2.c0, x.c1.c2.c1];
                    let j: usize = kani::any();
                    kani::assume(j < 12);
                    let raw = unsafe { std::mem::transmute::<Fq, [u64; 6]>(cs[j]) };
                    let want = be::<6>(&data, 48 * j);
                    let mut i = 0;
                    while i < 6 {
                        assert!(raw[i] == want[i]);
                        i += 1;
                    }
                }
            }
            std::mem::forget(r);
        }
    };
}
// truncation exactly at a coefficient boundary (a reader that stops silently at the shorter side would accept these)
fq12_de!(fq12_de_0, 0);
fq12_de!(fq12_de_48, 48);
fq12_de!(fq12_de_528, 528);
fq12_de!(fq12_de_575, 575);
fq12_de!(fq12_de_576, 576);
fq12_de!(fq12_de_577, 577);
