//! C01 K-toy: the real `curve_impl!` macro body instantiated over toy prime fields, all points x all
//! Jacobian representatives, against the affine reference in `toyref`.
use crate::toyref::*;
use pp::{CurveAffine, CurveProjective};

macro_rules! toy_harnesses {
    ($m:ident, $toy:ident, $p:expr, $b:expr, $unw:expr) => {
        mod $m {
            use super::*;
            use pp::bls12_381::verif_toy::$toy::{TAffine, T};
            const P: u32 = $p;

            fn set_b() -> u32 {
                // curve y^2 = x^3 + b over F_p
                unsafe {
                    pp::bls12_381::verif_toy::TOY_B = $b;
                }
                $b as u32
            }
            fn any_jac(b: u32) -> T {
                let x: u16 = kani::any();
                let y: u16 = kani::any();
                let z: u16 = kani::any();
                kani::assume((x as u32) < P && (y as u32) < P && (z as u32) < P);
                kani::assume(jac_valid(x as u32, y as u32, z as u32, P, b));
                T::new(x, y, z)
            }
            fn any_aff(b: u32) -> TAffine {
                let x: u16 = kani::any();
                let y: u16 = kani::any();
                let inf: bool = kani::any();
                kani::assume((x as u32) < P && (y as u32) < P);
                kani::assume(inf || on_curve(RP { x: x as u32, y: y as u32, inf: false }, P, b));
                TAffine::new(x, y, inf)
            }
            fn rj(t: &T) -> RP {
                let (x, y, z) = t.xyz();
                from_jac(x as u32, y as u32, z as u32, P)
            }
            fn ra(t: &TAffine) -> RP {
                let (x, y, inf) = t.xy();
                if inf { RO } else { RP { x: x as u32, y: y as u32, inf: false } }
            }
            fn valid(t: &T, b: u32) -> bool {
                let (x, y, z) = t.xyz();
                (x as u32) < P && (y as u32) < P && (z as u32) < P && jac_valid(x as u32, y as u32, z as u32, P, b)
            }

            #[kani::proof]
            #[kani::unwind($unw)]
            fn double() {
                let b = set_b();
                let a = any_jac(b);
                let mut c = a;
                c.double();
                assert!(valid(&c, b));
                assert!(rj(&c) == radd(rj(&a), rj(&a), P));
                kani::cover!(!rj(&a).inf, "finite point doubled");
            }
            #[kani::proof]
            #[kani::unwind($unw)]
            fn add_assign() {
                let b = set_b();
                let a = any_jac(b);
                let q = any_jac(b);
                let mut c = a;
                c.add_assign(&q);
                assert!(valid(&c, b));
                assert!(rj(&c) == radd(rj(&a), rj(&q), P));
                kani::cover!(!rj(&a).inf && rj(&a) == rj(&q) && a.xyz() != q.xyz(), "same point, different representatives");

            }
            #[kani::proof]
            #[kani::unwind($unw)]
            fn add_assign_mixed() {
                let b = set_b();
                let a = any_jac(b);
                let q = any_aff(b);
                let mut c = a;
                c.add_assign_mixed(&q);
                assert!(valid(&c, b));
                assert!(rj(&c) == radd(rj(&a), ra(&q), P));
                kani::cover!(!rj(&a).inf && rj(&a) == rneg(ra(&q), P), "P + (-P) mixed");
            }
            #[kani::proof]
            #[kani::unwind($unw)]
            fn sub_assign() {
                let b = set_b();
                let a = any_jac(b);
                let q = any_jac(b);
                let mut c = a;
                c.sub_assign(&q);
                assert!(valid(&c, b));
                assert!(rj(&c) == radd(rj(&a), rneg(rj(&q), P), P));
            }
            #[kani::proof]
            #[kani::unwind($unw)]
            fn sub_assign_mixed() {
                let b = set_b();
                let a = any_jac(b);
                let qa = any_aff(b);
                let mut d = a;
                d.sub_assign_mixed(&qa);
                assert!(valid(&d, b));
                assert!(rj(&d) == radd(rj(&a), rneg(ra(&qa), P), P));
            }
            #[kani::proof]
            #[kani::unwind($unw)]
            fn negate_eq_zero() {
                let b = set_b();
                let a = any_jac(b);
                let q = any_jac(b);
                let mut c = a;
                c.negate();
                assert!(valid(&c, b));
                assert!(rj(&c) == rneg(rj(&a), P));
                let mut qa = any_aff(b);
                let before = ra(&qa);
                qa.negate();
                assert!(ra(&qa) == rneg(before, P));
                // representation-independent equality
                assert!((a == q) == (rj(&a) == rj(&q)));
                assert!(a.is_zero() == rj(&a).inf);
                assert!(rj(&T::zero()).inf && ra(&TAffine::zero()).inf);
                kani::cover!(a == q && a.xyz() != q.xyz(), "equal points with different coordinates");
            }
            #[kani::proof]
            #[kani::unwind($unw)]
            fn conversions() {
                let b = set_b();
                let a = any_jac(b);
                let aff = a.into_affine();
                assert!(ra(&aff) == rj(&a));
                let (ax, ay, ainf) = aff.xy();
                assert!(ainf || ((ax as u32) < P && (ay as u32) < P));
                let back = aff.into_projective();
                assert!(valid(&back, b) && rj(&back) == rj(&a));
                assert!(back.is_normalized());
                let qa = any_aff(b);
                let pj: T = qa.into();
                assert!(rj(&pj) == ra(&qa));
                let (_, _, z) = a.xyz();
                assert!(a.is_normalized() == (z == 0 || z == 1));
                kani::cover!(z > 1, "general path");
            }
            #[kani::proof]
            #[kani::unwind($unw)]
            fn batch_normalization_2() {
                let b = set_b();
                let mut v = [any_jac(b), any_jac(b)];
                let before = [rj(&v[0]), rj(&v[1])];
                T::batch_normalization(&mut v[..]);
                let mut i = 0;
                while i < 2 {
                    assert!(rj(&v[i]) == before[i]);
                    assert!(v[i].is_normalized());
                    assert!(valid(&v[i], b));
                    i += 1;
                }
                kani::cover!(before[0].inf && !before[1].inf, "identity first");
            }
            #[kani::proof]
            #[kani::unwind($unw)]
            fn batch_normalization_3() {
                let b = set_b();
                let mut v = [any_jac(b), any_jac(b), any_jac(b)];
                let before = [rj(&v[0]), rj(&v[1]), rj(&v[2])];
                T::batch_normalization(&mut v[..]);
                let mut i = 0;
                while i < 3 {
                    assert!(rj(&v[i]) == before[i]);
                    assert!(v[i].is_normalized());
                    assert!(valid(&v[i], b));
                    i += 1;
                }
                kani::cover!(!before[0].inf && before[1].inf && !before[2].inf, "identity in the middle");
            }
            #[kani::proof]
            #[kani::unwind($unw)]
            fn batch_normalization_0_1() {
                let b = set_b();
                let mut v = [any_jac(b)];
                let before = rj(&v[0]);
                T::batch_normalization(&mut v[..0]);
                assert!(rj(&v[0]) == before);
                T::batch_normalization(&mut v[..]);
                assert!(rj(&v[0]) == before && v[0].is_normalized() && valid(&v[0], b));
            }
        }
    };
}

// y^2 = x^3 + 4 over F13: order 21 = 3*7 (order-3 points exist, as on E(Fq)); y^2 = x^3 + 2 over F13: order 19 (prime)
toy_harnesses!(p13b4, p13, 13, 4, 15);
toy_harnesses!(p13b2, p13, 13, 2, 15);
toy_harnesses!(p31b4, p31, 31, 4, 33);
