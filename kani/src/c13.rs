//! C13 K-mock: the generic expand_message_xmd / expand_message_xof / hash_to_field code instantiated with mock hashes whose
//! output depends on every input byte and its position; compared with an independent transcription of RFC 9380 section 5.3
//! over the same mocks.  Lengths come from a grid (symbolic lengths are out of CBMC's reach on Vec/GenericArray code); all
//! message and tag BYTES are symbolic.
use digest::generic_array::{
    typenum::{U1, U2, U3, U4},
    GenericArray,
};
use digest::{BlockInput, ExtendableOutput, FixedOutput, Input, Reset, XofReader};
use pp::hash_to_field::{hash_to_field, ExpandMsg, ExpandMsgXmd, ExpandMsgXof, FromRO};

fn step(st: u16, b: u8) -> u16 {
    st.wrapping_mul(31).wrapping_add(b as u16).wrapping_add(1)
}

/// Merkle-Damgard-like mock: 16-bit rolling state sensitive to every byte and its position, 2-byte digest, 4-byte block
#[derive(Clone)]
pub struct MockH {
    st: u16,
    n: u16,
}
impl Default for MockH {
    fn default() -> Self {
        MockH { st: 0x1234, n: 0 }
    }
}
impl Input for MockH {
    fn input<B: AsRef<[u8]>>(&mut self, data: B) {
        for b in data.as_ref() {
            self.st = step(self.st, *b);
            self.n = self.n.wrapping_add(1);
        }
    }
}
impl FixedOutput for MockH {
    type OutputSize = U2;
    fn fixed_result(self) -> GenericArray<u8, U2> {
        let v = self.st ^ self.n.wrapping_mul(0x9e37);
        GenericArray::clone_from_slice(&[(v >> 8) as u8, v as u8])
    }
}
impl Reset for MockH {
    fn reset(&mut self) {
        *self = Default::default();
    }
}
impl BlockInput for MockH {
    type BlockSize = U4;
}

/// same with a 1-byte digest (for the 255-block limit)
#[derive(Clone)]
pub struct MockH1(MockH);
impl Default for MockH1 {
    fn default() -> Self {
        MockH1(MockH::default())
    }
}
impl Input for MockH1 {
    fn input<B: AsRef<[u8]>>(&mut self, data: B) {
        self.0.input(data)
    }
}
impl FixedOutput for MockH1 {
    type OutputSize = U1;
    fn fixed_result(self) -> GenericArray<u8, U1> {
        let v = self.0.st ^ self.0.n;
        GenericArray::clone_from_slice(&[(v >> 8) as u8 ^ v as u8])
    }
}
impl Reset for MockH1 {
    fn reset(&mut self) {
        *self = Default::default();
    }
}
impl BlockInput for MockH1 {
    type BlockSize = U4;
}

fn h(parts: &[&[u8]]) -> [u8; 2] {
    let mut st: u16 = 0x1234;
    let mut n: u16 = 0;
    for p in parts {
        for b in p.iter() {
            st = step(st, *b);
            n = n.wrapping_add(1);
        }
    }
    let v = st ^ n.wrapping_mul(0x9e37);
    [(v >> 8) as u8, v as u8]
}

/// independent transcription of RFC 9380 5.3.1 for b_in_bytes = 2, s_in_bytes = 4 (at most 8 blocks)
fn spec_xmd(msg: &[u8], dst: &[u8], len: usize, out: &mut [u8; 16]) {
    let ell = (len + 1) / 2;
    let dl = [dst.len() as u8];
    let lib = [(len >> 8) as u8, len as u8];
    let b0 = h(&[&[0u8; 4], msg, &lib, &[0u8], dst, &dl]);
    let mut prev = h(&[&b0, &[1u8], dst, &dl]);
    let mut i = 1;
    while i <= ell && i <= 8 {
        if i > 1 {
            let x = [b0[0] ^ prev[0], b0[1] ^ prev[1]];
            prev = h(&[&x, &[i as u8], dst, &dl]);
        }
        out[2 * (i - 1)] = prev[0];
        out[2 * (i - 1) + 1] = prev[1];
        i += 1;
    }
}

macro_rules! xmd_case {
    ($name:ident, $ml:expr, $dl:expr, $len:expr, $unw:expr) => {
        #[kani::proof]
        #[kani::unwind($unw)]
        fn $name() {
            let msgb: [u8; 8] = kani::any();
            let dstb: [u8; 8] = kani::any();
            let got = <ExpandMsgXmd<MockH> as ExpandMsg>::expand_message(&msgb[..$ml], &dstb[..$dl], $len);
            let mut exp = [0u8; 16];
            spec_xmd(&msgb[..$ml], &dstb[..$dl], $len, &mut exp);
            assert!(got.len() == $len);
            let mut i = 0;
            while i < 16 {
                if i < $len {
                    assert!(got[i] == exp[i]);
                }
                i += 1;
            }
            std::mem::forget(got);
        }
    };
}
xmd_case!(xmd_m3_d3_l7, 3, 3, 7, 70);
xmd_case!(xmd_m0_d1_l2, 0, 1, 2, 70);
xmd_case!(xmd_m5_d0_l4, 5, 0, 4, 70);
xmd_case!(xmd_m1_d3_l0, 1, 3, 0, 70);
xmd_case!(xmd_m4_d2_l9, 4, 2, 9, 18);
xmd_case!(xmd_m8_d8_l16, 8, 8, 16, 18);

/// 255 output blocks are served, 256 abort (1-byte digest).  Concrete message and tag.
/// (xmd_255_blocks_ok / xmd_510_bytes_ok are kept for reference but NOT registered: CBMC's symbolic execution of 255 hash rounds did not
/// finish in an hour; "255 blocks are served" is decided by the S-euf part of C13.)
#[kani::proof]
#[kani::unwind(300)]
fn xmd_255_blocks_ok() {
    let got = <ExpandMsgXmd<MockH1> as ExpandMsg>::expand_message(&[1u8, 2], &[3u8], 255);
    assert!(got.len() == 255);
    std::mem::forget(got);
}
#[kani::proof]
#[kani::unwind(300)]
#[kani::should_panic]
fn xmd_256_blocks_abort() {
    let got = <ExpandMsgXmd<MockH1> as ExpandMsg>::expand_message(&[1u8, 2], &[3u8], 256);
    // not reached: the call must panic ("ell was too big")
    std::mem::forget(got);
}

/// the abort rule counts ROUNDED-UP blocks: with a 2-byte digest 510 bytes are 255 blocks (served), 511 bytes are 256 (abort)
#[kani::proof]
#[kani::unwind(300)]
fn xmd_510_bytes_ok() {
    let got = <ExpandMsgXmd<MockH> as ExpandMsg>::expand_message(&[1u8, 2], &[3u8], 510);
    assert!(got.len() == 510);
    std::mem::forget(got);
}
#[kani::proof]
#[kani::unwind(300)]
#[kani::should_panic]
fn xmd_511_bytes_abort() {
    let got = <ExpandMsgXmd<MockH> as ExpandMsg>::expand_message(&[1u8, 2], &[3u8], 511);
    std::mem::forget(got);
}

/// the longest tag the property admits (255 bytes): used as is, with the one-byte length suffix 0xff.  First and last tag byte
/// and the message byte are symbolic, the other tag bytes a fixed pattern.
fn dst255(a: u8, z: u8) -> [u8; 255] {
    let mut d = [0x5au8; 255];
    d[0] = a;
    d[254] = z;
    d
}
#[kani::proof]
#[kani::unwind(262)]
fn xmd_dst255() {
    let m: u8 = kani::any();
    let d = dst255(5, 9);
    let got = <ExpandMsgXmd<MockH> as ExpandMsg>::expand_message(&[m], &d[..], 2);
    let mut exp = [0u8; 16];
    spec_xmd(&[m], &d[..], 2, &mut exp);
    assert!(got.len() == 2 && got[0] == exp[0] && got[1] == exp[1]);
    std::mem::forget(got);
}

// ---------------------------------------------------------------- XOF
#[derive(Clone, Default)]
pub struct MockX {
    st: u16,
    n: u16,
}
pub struct MockXReader {
    st: u16,
    k: u16,
}
impl Input for MockX {
    fn input<B: AsRef<[u8]>>(&mut self, data: B) {
        for b in data.as_ref() {
            self.st = step(self.st, *b);
            self.n = self.n.wrapping_add(1);
        }
    }
}
impl XofReader for MockXReader {
    fn read(&mut self, buffer: &mut [u8]) {
        for b in buffer.iter_mut() {
            *b = (self.st.wrapping_add(self.k.wrapping_mul(77)) >> 3) as u8;
            self.k = self.k.wrapping_add(1);
        }
    }
}
impl ExtendableOutput for MockX {
    type Reader = MockXReader;
    fn xof_result(self) -> MockXReader {
        MockXReader { st: self.st ^ self.n.wrapping_mul(0x9e37), k: 0 }
    }
}
fn spec_xof(msg: &[u8], dst: &[u8], len: usize, out: &mut [u8; 16]) {
    let mut st: u16 = 0;
    let mut n: u16 = 0;
    let lib = [(len >> 8) as u8, len as u8];
    let dl = [dst.len() as u8];
    let parts: [&[u8]; 4] = [msg, &lib, dst, &dl];
    for p in parts.iter() {
        for b in p.iter() {
            st = step(st, *b);
            n = n.wrapping_add(1);
        }
    }
    let s = st ^ n.wrapping_mul(0x9e37);
    let mut k: u16 = 0;
    while (k as usize) < len && k < 16 {
        out[k as usize] = (s.wrapping_add(k.wrapping_mul(77)) >> 3) as u8;
        k += 1;
    }
}
macro_rules! xof_case {
    ($name:ident, $ml:expr, $dl:expr, $len:expr) => {
        #[kani::proof]
        #[kani::unwind(18)]
        fn $name() {
            let msgb: [u8; 8] = kani::any();
            let dstb: [u8; 8] = kani::any();
            let got = <ExpandMsgXof<MockX> as ExpandMsg>::expand_message(&msgb[..$ml], &dstb[..$dl], $len);
            let mut exp = [0u8; 16];
            spec_xof(&msgb[..$ml], &dstb[..$dl], $len, &mut exp);
            assert!(got.len() == $len);
            let mut i = 0;
            while i < 16 {
                if i < $len {
                    assert!(got[i] == exp[i]);
                }
                i += 1;
            }
            std::mem::forget(got);
        }
    };
}
xof_case!(xof_m3_d3_l7, 3, 3, 7);
xof_case!(xof_m0_d0_l1, 0, 0, 1);
xof_case!(xof_m5_d2_l0, 5, 2, 0);
xof_case!(xof_m2_d8_l16, 2, 8, 16);

#[kani::proof]
#[kani::unwind(262)]
fn xof_dst255() {
    let m: u8 = kani::any();
    let d = dst255(5, 9);
    let got = <ExpandMsgXof<MockX> as ExpandMsg>::expand_message(&[m], &d[..], 3);
    let mut exp = [0u8; 16];
    spec_xof(&[m], &d[..], 3, &mut exp);
    assert!(got.len() == 3 && got[0] == exp[0] && got[1] == exp[1] && got[2] == exp[2]);
    std::mem::forget(got);
}

// ---------------------------------------------------------------- hash_to_field: one expander call with count * L, consecutive blocks
pub static mut X_CALLS: u8 = 0;
pub static mut X_LEN: usize = 0;
pub static mut X_MSG0: u8 = 0;
pub static mut X_DST0: u8 = 0;
pub static mut X_OUT: [u8; 9] = [0; 9];
pub struct MockExp;
impl ExpandMsg for MockExp {
    fn expand_message(msg: &[u8], dst: &[u8], len_in_bytes: usize) -> Vec<u8> {
        unsafe {
            X_CALLS += 1;
            X_LEN = len_in_bytes;
            X_MSG0 = if msg.len() > 0 { msg[0] } else { 0 } ^ (msg.len() as u8);
            X_DST0 = if dst.len() > 0 { dst[0] } else { 0 } ^ (dst.len() as u8);
            let mut v = Vec::with_capacity(9);
            let mut i = 0;
            while i < len_in_bytes && i < 9 {
                v.push(X_OUT[i]);
                i += 1;
            }
            v
        }
    }
}
#[derive(Clone, Copy, PartialEq, Eq)]
pub struct MockT([u8; 3]);
impl FromRO for MockT {
    type Length = U3;
    fn from_ro(okm: &GenericArray<u8, U3>) -> Self {
        MockT([okm[0], okm[1], okm[2]])
    }
}
macro_rules! h2f_case {
    ($name:ident, $count:expr) => {
        #[kani::proof]
        #[kani::unwind(12)]
        fn $name() {
            let msg: [u8; 2] = kani::any();
            let dst: [u8; 1] = kani::any();
            unsafe {
                X_CALLS = 0;
                X_OUT = kani::any();
            }
            let v = hash_to_field::<MockT, MockExp>(&msg[..], &dst[..], $count);
            unsafe {
                assert!(X_CALLS == 1 && X_LEN == 3 * $count);
                assert!(X_MSG0 == msg[0] ^ 2 && X_DST0 == dst[0] ^ 1);
                assert!(v.len() == $count);
                let mut i = 0;
                while i < $count {
                    assert!(v[i].0[0] == X_OUT[3 * i] && v[i].0[1] == X_OUT[3 * i + 1] && v[i].0[2] == X_OUT[3 * i + 2]);
                    i += 1;
                }
            }
            std::mem::forget(v);
        }
    };
}
h2f_case!(h2f_count0, 0);
h2f_case!(h2f_count1, 1);
h2f_case!(h2f_count2, 2);
h2f_case!(h2f_count3, 3);

// ---------------------------------------------------------------- field reduction: from_okm / from_ro
// Fq::mul_assign is stubbed by a recorder (self unchanged, multiplier logged), so that the result's raw limbs are
// (hi + lo) mod q and the log shows that hi was multiplied by the literal F_2_256 (whose value 2^256 * R mod q is a C08 ground fact).
use crate::c08::{Q, R};
use pp::bls12_381::{Fq, Fq2, FqRepr, Fr, FrRepr};
use pp::hash_to_field::BaseFromRO;

pub static mut MUL_LOG: [[u64; 6]; 4] = [[0; 6]; 4];
pub static mut MUL_SELF: [[u64; 6]; 4] = [[0; 6]; 4];
pub static mut MUL_N: usize = 0;
fn rec_mul_fq(a: &mut Fq, b: &Fq) {
    unsafe {
        if MUL_N < 4 {
            MUL_LOG[MUL_N] = std::mem::transmute::<Fq, [u64; 6]>(*b);
            MUL_SELF[MUL_N] = std::mem::transmute::<Fq, [u64; 6]>(*a);
        }
        MUL_N += 1;
    }
}
pub static mut MULR_LOG: [[u64; 4]; 4] = [[0; 4]; 4];
pub static mut MULR_SELF: [[u64; 4]; 4] = [[0; 4]; 4];
pub static mut MULR_N: usize = 0;
fn rec_mul_fr(a: &mut Fr, b: &Fr) {
    unsafe {
        if MULR_N < 4 {
            MULR_LOG[MULR_N] = std::mem::transmute::<Fr, [u64; 4]>(*b);
            MULR_SELF[MULR_N] = std::mem::transmute::<Fr, [u64; 4]>(*a);
        }
        MULR_N += 1;
    }
}
fn stub_format13(_a: std::fmt::Arguments<'_>) -> String {
    String::new()
}
fn be_limbs<const N: usize>(b: &[u8], off: usize, nbytes: usize) -> [u64; N] {
    let mut out = [0u64; N];
    let mut i = 0;
    while i < nbytes {
        let pos = nbytes - 1 - i;
        out[pos / 8] |= (b[off + i] as u64) << (8 * (pos % 8));
        i += 1;
    }
    out
}
fn addmod<const N: usize>(a: &[u64; N], b: &[u64; N], m: &[u64; N]) -> [u64; N] {
    let mut s = [0u64; N];
    let mut carry = 0u128;
    let mut i = 0;
    while i < N {
        let t = a[i] as u128 + b[i] as u128 + carry;
        s[i] = t as u64;
        carry = t >> 64;
        i += 1;
    }
    // s >= m ?
    let mut ge = carry != 0;
    if !ge {
        ge = true;
        let mut j = N;
        while j > 0 {
            j -= 1;
            if s[j] < m[j] {
                ge = false;
                break;
            }
            if s[j] > m[j] {
                break;
            }
        }
    }
    if ge {
        let mut borrow = 0i128;
        i = 0;
        while i < N {
            let t = s[i] as i128 - m[i] as i128 - borrow;
            if t < 0 {
                s[i] = (t + (1i128 << 64)) as u64;
                borrow = 1;
            } else {
                s[i] = t as u64;
                borrow = 0;
            }
            i += 1;
        }
    }
    s
}
// Montgomery-form literals as written in the source (their values are ground facts of C08)
const F_2_256: [u64; 6] = [0x75b3cd7c5ce820f, 0x3ec6ba621c3edb0b, 0x168a13d82bff6bce, 0x87663c4bf8c449d2, 0x15f34c83ddc8d830, 0xf9628b49caa2e85];
const F_2_192: [u64; 4] = [0x59476ebc41b4528f, 0xc5a30cb243fcc152, 0x2b34e63940ccbd72, 0x1e179025ca247088];

#[kani::proof]
#[kani::unwind(66)]
#[kani::stub(<pairing_plus::bls12_381::Fq as ff_zeroize::Field>::mul_assign, rec_mul_fq)]
#[kani::stub(alloc::fmt::format, stub_format13)]
fn fq_from_okm() {
    let bytes: [u8; 64] = kani::any();
    unsafe {
        MUL_N = 0;
    }
    let okm = GenericArray::<u8, digest::generic_array::typenum::U64>::clone_from_slice(&bytes);
    let r = <Fq as BaseFromRO>::from_okm(&okm);
    let hi = be_limbs::<6>(&bytes, 0, 32);
    let lo = be_limbs::<6>(&bytes, 32, 32);
    let raw = unsafe { std::mem::transmute::<Fq, [u64; 6]>(r) };
    let want = addmod::<6>(&hi, &lo, &Q);
    let mut i = 0;
    while i < 6 {
        assert!(raw[i] == want[i]);
        i += 1;
    }
    unsafe {
        // from_repr(hi) * R2 ; * F_2_256 ; from_repr(lo) * R2
        assert!(MUL_N == 3);
        i = 0;
        while i < 6 {
            assert!(MUL_LOG[1][i] == F_2_256[i] && MUL_SELF[1][i] == hi[i] && MUL_LOG[0][i] == MUL_LOG[2][i] && MUL_SELF[0][i] == hi[i] && MUL_SELF[2][i] == lo[i]);
            i += 1;
        }
    }
}

#[kani::proof]
#[kani::unwind(50)]
#[kani::stub(<pairing_plus::bls12_381::Fr as ff_zeroize::Field>::mul_assign, rec_mul_fr)]
#[kani::stub(alloc::fmt::format, stub_format13)]
fn fr_from_okm() {
    let bytes: [u8; 48] = kani::any();
    unsafe {
        MULR_N = 0;
    }
    let okm = GenericArray::<u8, digest::generic_array::typenum::U48>::clone_from_slice(&bytes);
    let r = <Fr as BaseFromRO>::from_okm(&okm);
    let hi = be_limbs::<4>(&bytes, 0, 24);
    let lo = be_limbs::<4>(&bytes, 24, 24);
    let raw = unsafe { std::mem::transmute::<Fr, [u64; 4]>(r) };
    let want = addmod::<4>(&hi, &lo, &R);
    let mut i = 0;
    while i < 4 {
        assert!(raw[i] == want[i]);
        i += 1;
    }
    unsafe {
        assert!(MULR_N == 3);
        i = 0;
        while i < 4 {
            assert!(MULR_LOG[1][i] == F_2_192[i] && MULR_SELF[1][i] == hi[i] && MULR_LOG[0][i] == MULR_LOG[2][i] && MULR_SELF[2][i] == lo[i]);
            i += 1;
        }
    }
}

pub static mut OKM_CALLS: usize = 0;
pub static mut OKM_FIRST: [u8; 2] = [0; 2];
pub static mut OKM_LAST: [u8; 2] = [0; 2];
fn rec_from_okm(okm: &GenericArray<u8, digest::generic_array::typenum::U64>) -> Fq {
    unsafe {
        if OKM_CALLS < 2 {
            OKM_FIRST[OKM_CALLS] = okm[0];
            OKM_LAST[OKM_CALLS] = okm[63];
        }
        OKM_CALLS += 1;
        let mut l = [0u64; 6];
        l[0] = OKM_CALLS as u64;
        pp::bls12_381::transmute::fq(FqRepr(l))
    }
}
#[kani::proof]
#[kani::unwind(130)]
#[kani::stub(<pairing_plus::bls12_381::Fq as pairing_plus::hash_to_field::BaseFromRO>::from_okm, rec_from_okm)]
fn fq2_from_ro() {
    let bytes: [u8; 128] = kani::any();
    unsafe {
        OKM_CALLS = 0;
    }
    let okm = GenericArray::<u8, digest::generic_array::typenum::U128>::clone_from_slice(&bytes);
    let r = <Fq2 as FromRO>::from_ro(&okm);
    unsafe {
        assert!(OKM_CALLS == 2);
        // real part from the first 64 bytes, u-coefficient from the next 64
        assert!(OKM_FIRST[0] == bytes[0] && OKM_LAST[0] == bytes[63] && OKM_FIRST[1] == bytes[64] && OKM_LAST[1] == bytes[127]);
        let c0 = std::mem::transmute::<Fq, [u64; 6]>(r.c0);
        let c1 = std::mem::transmute::<Fq, [u64; 6]>(r.c1);
        assert!(c0[0] == 1 && c1[0] == 2);
    }
}
